#!/bin/bash
# offline build of everything the checks need (run once after a fresh restore)
set -eu
cd "$(dirname "${BASH_SOURCE[0]}")"
VERIF_DIR="$(pwd)"
export CARGO_NET_OFFLINE=true
(cd harness && cargo build --release --offline --features hooks --target-dir ../target/hooks)
(cd harness && cargo build --release --offline --target-dir ../target/plain)
(cd /repo && cargo build --offline --bin xml_schema_generator --target-dir "$VERIF_DIR/target/repo-bin")
