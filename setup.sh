#!/bin/bash
# offline build of everything the checks need
set -eu
cd "$(dirname "${BASH_SOURCE[0]}")"
export CARGO_NET_OFFLINE=true
(cd harness && cargo build --release --offline --features hooks --target-dir ../target/hooks)
