#!/bin/bash
# offline build of everything the checks need (run once after a fresh restore)
set -eu
cd "$(dirname "${BASH_SOURCE[0]}")"
VERIF_DIR="$(pwd)"
export CARGO_NET_OFFLINE=true
(cd harness && cargo build --release --offline --features hooks --target-dir ../target/hooks)
(cd harness && cargo build --release --offline --target-dir ../target/plain)
(cd /repo && cargo build --offline --bin xml_schema_generator --target-dir "$VERIF_DIR/target/repo-bin")
(cd depthprobe && cp /repo/Cargo.lock Cargo.lock && cargo build --offline --target-dir "$VERIF_DIR/target/depthprobe")
# pre-build the dependencies of the generated-program farm
rm -rf work/farm-setup && mkdir -p work/farm-setup/src/bin && cp farm-template/Cargo.toml work/farm-setup/ && cp farm-template/src/lib.rs work/farm-setup/src/ && cp /repo/Cargo.lock work/farm-setup/
echo 'fn main() {}' > work/farm-setup/src/bin/shard_00.rs
(cd work/farm-setup && cargo build --offline --bins --target-dir "$VERIF_DIR/target/farm")
rm -rf work/farm-setup
