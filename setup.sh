#!/bin/bash
# offline build of everything the checks need (run once after a fresh restore)
set -eu
cd "$(dirname "${BASH_SOURCE[0]}")"
export CARGO_NET_OFFLINE=true
(cd harness && cargo build --release --offline --features hooks --target-dir ../target/hooks)
(cd harness && cargo build --release --offline --target-dir ../target/plain)
