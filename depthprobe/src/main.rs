//! C07's depth probe: the nesting templates of depth 1..=200 on a thread with the default 2 MiB
//! stack, with the library compiled *without optimisation* (dev profile, the largest stack frames).
//! Protocol as `xsgv c07-worker`: prints `AT <index>` before every case and `DONE <json>` at the end;
//! a stack overflow kills the process, which the parent narrows down to the index.
//! usage: depthprobe <start> <end>

use quick_xml::reader::Reader;
use std::io::Write;
use xml_schema_generator::{extend_struct, into_struct, Options, SortBy};

const TEMPLATES: usize = 6;

const MAX_DEPTH: usize = 200;
/// as `COUNTER_CASES` in the harness (props/c07.rs): `<r>` with n children `<a/>`
const COUNTER_CASES: &[usize] = &[255, 256, 257, 65_535, 65_536, 65_537, 70_000];

fn depth_case(idx: u64) -> Vec<u8> {
    if idx as usize >= MAX_DEPTH * TEMPLATES {
        let n = COUNTER_CASES[(idx as usize - MAX_DEPTH * TEMPLATES) % COUNTER_CASES.len()];
        let mut s = String::with_capacity(n * 4 + 8);
        s.push_str("<r>");
        for _ in 0..n {
            s.push_str("<a/>");
        }
        s.push_str("</r>");
        return s.into_bytes();
    }
    let depth = (idx as usize / TEMPLATES) + 1;
    let t = idx as usize % TEMPLATES;
    let mut s = String::new();
    let name = |i: usize| match t {
        1 => {
            if i % 2 == 0 {
                "a"
            } else {
                "b"
            }
        }
        _ => "a",
    };
    for i in 0..depth {
        match t {
            2 => s.push_str(&format!("<{} x=\"1\" y=\"2\">", name(i))),
            5 => s.push_str(&format!("<{}>t", name(i))),
            _ => s.push_str(&format!("<{}>", name(i))),
        }
    }
    if t == 4 {
        s.push_str("<c/><c/>");
    }
    if t != 3 {
        for i in (0..depth).rev() {
            s.push_str(&format!("</{}>", name(i)));
        }
    }
    s.into_bytes()
}

fn exercise(data: Vec<u8>) -> Vec<String> {
    let h = std::thread::Builder::new()
        .stack_size(2 << 20)
        .spawn(move || {
            let mut panics = Vec::new();
            let run = std::panic::catch_unwind(|| {
                let mut reader = Reader::from_reader(&data[..]);
                if let Ok(el) = into_struct(&mut reader) {
                    for sorted in [false, true] {
                        let mut o = Options::quick_xml_de();
                        o.sort = if sorted { SortBy::XmlName } else { SortBy::Unsorted };
                        let _ = el.to_serde_struct(&o);
                        let _ = el.to_serde_struct(&Options::serde_xml_rs());
                    }
                    let mut reader2 = Reader::from_reader(&data[..]);
                    if let Ok(e2) = extend_struct(&mut reader2, el.clone()) {
                        let _ = e2.to_serde_struct(&Options::quick_xml_de());
                    }
                }
            });
            if run.is_err() {
                panics.push("panic".to_string());
            }
            panics
        })
        .expect("spawn");
    h.join().unwrap_or_else(|_| vec!["worker thread died".to_string()])
}

fn main() {
    let args: Vec<String> = std::env::args().collect();
    let start: u64 = args.get(1).and_then(|s| s.parse().ok()).unwrap_or(0);
    let end: u64 = args.get(2).and_then(|s| s.parse().ok()).unwrap_or(0);
    std::panic::set_hook(Box::new(|_| {}));
    let out = std::io::stdout();
    let mut out = out.lock();
    let mut found: Vec<String> = Vec::new();
    for i in start..end {
        let _ = writeln!(out, "AT {}", i);
        let _ = out.flush();
        for p in exercise(depth_case(i)) {
            let what = if i as usize >= MAX_DEPTH * TEMPLATES {
                format!("{} occurrences of one child", COUNTER_CASES[(i as usize - MAX_DEPTH * TEMPLATES) % COUNTER_CASES.len()])
            } else {
                format!("depth {}, template {}", i as usize / TEMPLATES + 1, i as usize % TEMPLATES)
            };
            found.push(format!("{{\"class\":\"panic/depth-unoptimised\",\"summary\":\"depth case {} ({}) in the unoptimised build: {}\",\"replay\":{{\"part\":\"depth-unoptimised\",\"index\":{}}},\"rank\":{}}}", i, what, p, i, i));
        }
    }
    let _ = writeln!(out, "DONE {{\"inputs\":{},\"calls\":{},\"nontrivial\":{},\"executions\":0,\"found\":[{}]}}", end - start, end - start, end - start, found.join(","));
}
