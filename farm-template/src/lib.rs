//! Support code of the generated-program farm: a serde Serializer that collects every leaf value
//! of a deserialised struct as a string (independent of both XML libraries).

use serde::ser::{self, Serialize};

#[derive(Debug)]
pub struct Never(String);

impl std::fmt::Display for Never {
    fn fmt(&self, f: &mut std::fmt::Formatter<'_>) -> std::fmt::Result {
        write!(f, "{}", self.0)
    }
}

impl std::error::Error for Never {}

impl ser::Error for Never {
    fn custom<T: std::fmt::Display>(msg: T) -> Self {
        Never(msg.to_string())
    }
}

pub struct Collect<'a>(pub &'a mut Vec<String>);

macro_rules! leaf {
    ($name:ident, $t:ty) => {
        fn $name(self, v: $t) -> Result<(), Never> {
            self.0.push(v.to_string());
            Ok(())
        }
    };
}

impl<'a> ser::Serializer for Collect<'a> {
    type Ok = ();
    type Error = Never;
    type SerializeSeq = Self;
    type SerializeTuple = Self;
    type SerializeTupleStruct = Self;
    type SerializeTupleVariant = Self;
    type SerializeMap = Self;
    type SerializeStruct = Self;
    type SerializeStructVariant = Self;

    leaf!(serialize_bool, bool);
    leaf!(serialize_i8, i8);
    leaf!(serialize_i16, i16);
    leaf!(serialize_i32, i32);
    leaf!(serialize_i64, i64);
    leaf!(serialize_u8, u8);
    leaf!(serialize_u16, u16);
    leaf!(serialize_u32, u32);
    leaf!(serialize_u64, u64);
    leaf!(serialize_f32, f32);
    leaf!(serialize_f64, f64);
    leaf!(serialize_char, char);
    leaf!(serialize_str, &str);

    fn serialize_bytes(self, v: &[u8]) -> Result<(), Never> {
        self.0.push(String::from_utf8_lossy(v).to_string());
        Ok(())
    }
    fn serialize_none(self) -> Result<(), Never> {
        Ok(())
    }
    fn serialize_some<T: ?Sized + Serialize>(self, v: &T) -> Result<(), Never> {
        v.serialize(self)
    }
    fn serialize_unit(self) -> Result<(), Never> {
        Ok(())
    }
    fn serialize_unit_struct(self, _: &'static str) -> Result<(), Never> {
        Ok(())
    }
    fn serialize_unit_variant(self, _: &'static str, _: u32, variant: &'static str) -> Result<(), Never> {
        self.0.push(variant.to_string());
        Ok(())
    }
    fn serialize_newtype_struct<T: ?Sized + Serialize>(self, _: &'static str, v: &T) -> Result<(), Never> {
        v.serialize(self)
    }
    fn serialize_newtype_variant<T: ?Sized + Serialize>(self, _: &'static str, _: u32, _: &'static str, v: &T) -> Result<(), Never> {
        v.serialize(self)
    }
    fn serialize_seq(self, _: Option<usize>) -> Result<Self, Never> {
        Ok(self)
    }
    fn serialize_tuple(self, _: usize) -> Result<Self, Never> {
        Ok(self)
    }
    fn serialize_tuple_struct(self, _: &'static str, _: usize) -> Result<Self, Never> {
        Ok(self)
    }
    fn serialize_tuple_variant(self, _: &'static str, _: u32, _: &'static str, _: usize) -> Result<Self, Never> {
        Ok(self)
    }
    fn serialize_map(self, _: Option<usize>) -> Result<Self, Never> {
        Ok(self)
    }
    fn serialize_struct(self, _: &'static str, _: usize) -> Result<Self, Never> {
        Ok(self)
    }
    fn serialize_struct_variant(self, _: &'static str, _: u32, _: &'static str, _: usize) -> Result<Self, Never> {
        Ok(self)
    }
}

macro_rules! compound {
    ($tr:ident, $f:ident) => {
        impl<'a> ser::$tr for Collect<'a> {
            type Ok = ();
            type Error = Never;
            fn $f<T: ?Sized + Serialize>(&mut self, v: &T) -> Result<(), Never> {
                v.serialize(Collect(self.0))
            }
            fn end(self) -> Result<(), Never> {
                Ok(())
            }
        }
    };
}

compound!(SerializeSeq, serialize_element);
compound!(SerializeTuple, serialize_element);
compound!(SerializeTupleStruct, serialize_field);
compound!(SerializeTupleVariant, serialize_field);

impl<'a> ser::SerializeMap for Collect<'a> {
    type Ok = ();
    type Error = Never;
    fn serialize_key<T: ?Sized + Serialize>(&mut self, _: &T) -> Result<(), Never> {
        Ok(())
    }
    fn serialize_value<T: ?Sized + Serialize>(&mut self, v: &T) -> Result<(), Never> {
        v.serialize(Collect(self.0))
    }
    fn end(self) -> Result<(), Never> {
        Ok(())
    }
}

impl<'a> ser::SerializeStruct for Collect<'a> {
    type Ok = ();
    type Error = Never;
    fn serialize_field<T: ?Sized + Serialize>(&mut self, _: &'static str, v: &T) -> Result<(), Never> {
        v.serialize(Collect(self.0))
    }
    fn end(self) -> Result<(), Never> {
        Ok(())
    }
}

impl<'a> ser::SerializeStructVariant for Collect<'a> {
    type Ok = ();
    type Error = Never;
    fn serialize_field<T: ?Sized + Serialize>(&mut self, _: &'static str, v: &T) -> Result<(), Never> {
        v.serialize(Collect(self.0))
    }
    fn end(self) -> Result<(), Never> {
        Ok(())
    }
}

pub fn leaves<T: Serialize>(v: &T) -> Vec<String> {
    let mut out = Vec::new();
    let _ = v.serialize(Collect(&mut out));
    out
}

fn json_str(s: &str) -> String {
    let mut o = String::from("\"");
    for c in s.chars() {
        match c {
            '"' => o.push_str("\\\""),
            '\\' => o.push_str("\\\\"),
            '\n' => o.push_str("\\n"),
            '\r' => o.push_str("\\r"),
            '\t' => o.push_str("\\t"),
            c if (c as u32) < 0x20 => o.push_str(&format!("\\u{:04x}", c as u32)),
            c => o.push(c),
        }
    }
    o.push('"');
    o
}

/// one JSON line per (program, variant, document)
pub fn report(program: usize, variant: &str, doc: usize, result: Result<Vec<String>, String>) -> String {
    match result {
        Ok(l) => format!(
            "{{\"p\":{},\"v\":{},\"d\":{},\"ok\":true,\"leaves\":[{}]}}",
            program,
            json_str(variant),
            doc,
            l.iter().map(|s| json_str(s)).collect::<Vec<_>>().join(",")
        ),
        Err(e) => format!(
            "{{\"p\":{},\"v\":{},\"d\":{},\"ok\":false,\"error\":{}}}",
            program,
            json_str(variant),
            doc,
            json_str(&e)
        ),
    }
}
