//! Level-synchronous explicit-state search over the *real* transition functions.
//!
//! * exact string keys (no fingerprints); deduplication at the level barrier in the fixed order
//!   (parent index, event index) so counts do not depend on the number of threads;
//! * invariants (`check`) are evaluated on every generated transition, before deduplication;
//! * every key remembers the history that first reached it; a *merge audit* rebuilds the
//!   representative from that history and requires that it and the merged state have equal
//!   successors (key and observation) under every event.

use crate::par::par_for;
use std::collections::HashMap;
use std::time::Instant;

pub struct Bfs<'a, S> {
    pub n_events: usize,
    pub init: Vec<S>,
    /// pure transition; `None` = the event yields no successor state (e.g. the call returned Err)
    pub apply: &'a (dyn Fn(&S, usize) -> Option<S> + Sync),
    /// invariants of one transition: (predecessor, history incl. initial index, event, successor)
    pub check: &'a (dyn Fn(&S, &[u16], usize, Option<&S>) + Sync),
    /// invariants of an initial state
    pub check_init: &'a (dyn Fn(&S, usize) + Sync),
    pub key: &'a (dyn Fn(&S) -> String + Sync),
    /// observation compared by the merge audit in addition to the key
    pub observe: &'a (dyn Fn(&S) -> String + Sync),
    pub max_depth: usize,
    pub state_cap: usize,
    pub audit_cap: usize,
    pub threads: usize,
    pub deadline: Instant,
}

#[derive(Debug, Default, Clone)]
pub struct BfsStats {
    pub states: u64,
    pub transitions: u64,
    pub states_per_depth: Vec<u64>,
    pub merged: u64,
    pub merges_audited: u64,
    pub audit_failures: Vec<String>,
    /// deepest level whose every state was expanded
    pub complete_depth: usize,
    pub capped: Option<String>,
    /// a few (history, key) pairs for the evidence
    pub sample_histories: Vec<Vec<u16>>,
}

struct Succ<S> {
    parent: u32,
    ev: u16,
    key: String,
    /// `None` for a new state of the last level (it is counted, never expanded, so only its key is kept)
    state: Option<S>,
}

struct Acc<S> {
    /// successors with a new key that could not be kept (memory cap of the level)
    dropped: u64,
    fresh: Vec<Succ<S>>,
    /// keys this worker already holds in `fresh` (chunks are handed out in ascending order, so the
    /// entry kept is the worker's smallest (parent, event); the barrier picks the smallest overall)
    local_keys: std::collections::HashSet<String>,
    /// duplicates of a key that is new in this level (audited after the barrier)
    level_dups: Vec<Succ<S>>,
    merged: Vec<Succ<S>>,
    transitions: u64,
    merged_count: u64,
}

impl<'a, S: Clone + Send + Sync> Bfs<'a, S> {
    pub fn run(&self) -> BfsStats {
        let mut stats = BfsStats::default();
        let mut seen: HashMap<String, Vec<u16>> = HashMap::new();
        let mut frontier: Vec<(S, Vec<u16>)> = Vec::new();
        for (i, s) in self.init.iter().enumerate() {
            (self.check_init)(s, i);
            let k = (self.key)(s);
            if !seen.contains_key(&k) {
                seen.insert(k, vec![i as u16]);
                frontier.push((s.clone(), vec![i as u16]));
            } else {
                stats.merged += 1;
            }
        }
        stats.states = frontier.len() as u64;
        stats.states_per_depth.push(frontier.len() as u64);
        let mut audit_pool: Vec<(S, Vec<u16>)> = Vec::new(); // (merged state, history of representative)
        for depth in 0..self.max_depth {
            if frontier.is_empty() {
                stats.complete_depth = depth;
                break;
            }
            // invariants are still checked on every transition; only the storage of new states is capped
            let last_level = depth + 1 == self.max_depth;
            let fresh_cap_per_worker = if last_level { usize::MAX } else { self.state_cap / 4 + 1 };
            let audit_room = self.audit_cap.saturating_sub(audit_pool.len());
            let per_worker_audit = audit_room / self.threads.max(1) + 1;
            let res = par_for(
                frontier.len() as u64,
                self.threads,
                16,
                Some(self.deadline),
                |_| Acc {
                    dropped: 0,
                    fresh: Vec::new(),
                    local_keys: std::collections::HashSet::new(),
                    level_dups: Vec::new(),
                    merged: Vec::new(),
                    transitions: 0,
                    merged_count: 0,
                },
                |acc: &mut Acc<S>, i| {
                    let (state, hist) = &frontier[i as usize];
                    for ev in 0..self.n_events {
                        let succ = (self.apply)(state, ev);
                        acc.transitions += 1;
                        (self.check)(state, hist, ev, succ.as_ref());
                        if let Some(s) = succ {
                            let key = (self.key)(&s);
                            let mut rec = Succ {
                                parent: i as u32,
                                ev: ev as u16,
                                key,
                                state: Some(s),
                            };
                            if seen.contains_key(&rec.key) {
                                acc.merged_count += 1;
                                if acc.merged.len() < per_worker_audit {
                                    acc.merged.push(rec);
                                }
                            } else if acc.local_keys.contains(&rec.key) {
                                acc.merged_count += 1;
                                if acc.level_dups.len() < per_worker_audit {
                                    acc.level_dups.push(rec);
                                }
                            } else if acc.fresh.len() < fresh_cap_per_worker {
                                acc.local_keys.insert(rec.key.clone());
                                if last_level {
                                    rec.state = None;
                                }
                                acc.fresh.push(rec);
                            } else {
                                acc.dropped += 1;
                            }
                        }
                    }
                },
            );
            let mut fresh: Vec<Succ<S>> = Vec::new();
            let mut level_dups: Vec<Succ<S>> = Vec::new();
            let mut dropped = 0u64;
            for mut a in res.accs {
                dropped += a.dropped;
                level_dups.append(&mut a.level_dups);
                stats.transitions += a.transitions;
                stats.merged += a.merged_count;
                for m in a.merged.drain(..) {
                    if audit_pool.len() < self.audit_cap {
                        let rep = seen[&m.key].clone();
                        if let Some(st) = m.state {
                            audit_pool.push((st, rep));
                        }
                    }
                }
                fresh.append(&mut a.fresh);
            }
            if dropped > 0 {
                stats.capped = Some(format!(
                    "state cap: {} new states of depth {} were checked but not stored (their successors are not explored)",
                    dropped,
                    depth + 1
                ));
            }
            if !res.complete {
                stats.capped = Some(format!(
                    "wall or memory budget reached while expanding depth {} ({} of {} states expanded)",
                    depth,
                    res.processed,
                    frontier.len()
                ));
                stats.complete_depth = depth;
                break;
            }
            stats.complete_depth = depth + 1;
            fresh.sort_by_key(|s| (s.parent, s.ev));
            let mut next: Vec<(S, Vec<u16>)> = Vec::new();
            let mut new_states = 0u64;
            let mut leaf_samples: Vec<Vec<u16>> = Vec::new();
            for s in fresh {
                if let Some(rep) = seen.get(&s.key) {
                    stats.merged += 1;
                    if let (true, Some(st)) = (audit_pool.len() < self.audit_cap, s.state) {
                        audit_pool.push((st, rep.clone()));
                    }
                    continue;
                }
                let mut h = frontier[s.parent as usize].1.clone();
                h.push(s.ev);
                new_states += 1;
                match s.state {
                    Some(st) => {
                        seen.insert(s.key, h.clone());
                        next.push((st, h));
                    }
                    None => {
                        if leaf_samples.len() < 4 {
                            leaf_samples.push(h.clone());
                        }
                        seen.insert(s.key, h);
                    }
                }
            }
            // duplicates inside the level: audited against the representative chosen at the barrier
            for m in level_dups {
                if audit_pool.len() >= self.audit_cap {
                    break;
                }
                if let (Some(rep), Some(st)) = (seen.get(&m.key), m.state) {
                    audit_pool.push((st, rep.clone()));
                }
            }
            stats.states += new_states;
            stats.states_per_depth.push(new_states);
            if last_level {
                // leaves: counted as states, not expanded
                stats.sample_histories.extend(leaf_samples);
                frontier = Vec::new();
                break;
            }
            if seen.len() > self.state_cap {
                stats.capped = Some(format!(
                    "state cap {} exceeded after depth {}",
                    self.state_cap,
                    depth + 1
                ));
                for (_, h) in next.iter().take(4) {
                    stats.sample_histories.push(h.clone());
                }
                break;
            }
            frontier = next;
        }
        // merge audit
        let audit = par_for(
            audit_pool.len() as u64,
            self.threads,
            8,
            None,
            |_| (0u64, Vec::<String>::new()),
            |acc: &mut (u64, Vec<String>), i| {
                let (merged, rep_hist) = &audit_pool[i as usize];
                let mut rep = self.init[rep_hist[0] as usize].clone();
                for &ev in &rep_hist[1..] {
                    match (self.apply)(&rep, ev as usize) {
                        Some(s) => rep = s,
                        None => {
                            acc.1.push(format!("history {:?} does not replay", rep_hist));
                            return;
                        }
                    }
                }
                acc.0 += 1;
                if (self.key)(&rep) != (self.key)(merged) {
                    acc.1.push(format!(
                        "representative rebuilt from {:?} has a different key",
                        rep_hist
                    ));
                    return;
                }
                if (self.observe)(&rep) != (self.observe)(merged) {
                    acc.1.push(format!(
                        "merged states (representative {:?}) have different observations",
                        rep_hist
                    ));
                    return;
                }
                for ev in 0..self.n_events {
                    let a = (self.apply)(&rep, ev);
                    let b = (self.apply)(merged, ev);
                    let same = match (&a, &b) {
                        (None, None) => true,
                        (Some(x), Some(y)) => {
                            (self.key)(x) == (self.key)(y) && (self.observe)(x) == (self.observe)(y)
                        }
                        _ => false,
                    };
                    if !same {
                        acc.1.push(format!(
                            "merged states (representative {:?}) diverge under event {}",
                            rep_hist, ev
                        ));
                        return;
                    }
                }
            },
        );
        for (n, errs) in audit.accs {
            stats.merges_audited += n;
            stats.audit_failures.extend(errs);
        }
        stats
    }
}
