//! Verification harness for xml_schema_generator (see /verif/DESIGN.md).

pub mod bytespace;
pub mod ctx;
pub mod docspace;
pub mod dom;
pub mod oracle;
pub mod par;
pub mod progfarm;
pub mod refmodel;
pub mod rsast;
pub mod subject;
pub mod wellformed;

#[cfg(feature = "hooks")]
pub mod bfs;
#[cfg(feature = "hooks")]
pub mod canon;
pub mod choice;
#[cfg(feature = "hooks")]
pub mod props;
