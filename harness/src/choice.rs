//! Deviation-bounded exploration of environment nondeterminism (CHESS-style, with "preemption"
//! replaced by "non-default environment answer"). The subject asks `Chooser::choose(arity)` at
//! every choice point; the explorer replays a prefix of recorded answers, answers 0 (the default)
//! afterwards, and recursively explores every alternative at every later point while the number
//! of non-default answers stays within the bound. Executions always run to completion.

use std::cell::RefCell;
use std::rc::Rc;

#[derive(Default, Debug)]
pub struct Trace {
    pub prefix: Vec<usize>,
    pub arities: Vec<usize>,
    pub choices: Vec<usize>,
    /// set when the prefix could not be replayed (different arity): a hard machinery error
    pub divergence: Option<String>,
}

#[derive(Clone)]
pub struct Chooser(pub Rc<RefCell<Trace>>);

impl Chooser {
    pub fn new(prefix: Vec<usize>) -> Chooser {
        Chooser(Rc::new(RefCell::new(Trace {
            prefix,
            ..Default::default()
        })))
    }

    /// answer of the environment at a point with `arity` alternatives (0 = default)
    pub fn choose(&self, arity: usize) -> usize {
        let mut t = self.0.borrow_mut();
        let pos = t.choices.len();
        let c = if pos < t.prefix.len() {
            let c = t.prefix[pos];
            if c >= arity {
                t.divergence = Some(format!(
                    "replay divergence at point {}: recorded answer {} but the point has {} alternatives",
                    pos, c, arity
                ));
                0
            } else {
                c
            }
        } else {
            0
        };
        t.arities.push(arity);
        t.choices.push(c);
        c
    }
}

#[derive(Default, Debug, Clone)]
pub struct ExploreStats {
    pub executions: u64,
    pub points: u64,
    pub max_points: usize,
    pub max_arity: usize,
    pub capped: bool,
    pub divergences: Vec<String>,
}

/// explore all answer sequences with at most `bound` non-default answers. `run` executes the
/// subject once under the given chooser and returns its observation; `visit` receives
/// (choices, observation). `max_exec` caps the number of executions (reported as `capped`)
pub fn explore<O>(
    bound: usize,
    max_exec: u64,
    run: &dyn Fn(&Chooser) -> O,
    visit: &mut dyn FnMut(&[usize], &[usize], O),
) -> ExploreStats {
    let mut stats = ExploreStats::default();
    let mut stack: Vec<Vec<usize>> = vec![Vec::new()];
    while let Some(prefix) = stack.pop() {
        if stats.executions >= max_exec {
            stats.capped = true;
            break;
        }
        let ch = Chooser::new(prefix.clone());
        let obs = run(&ch);
        let trace = ch.0.borrow();
        stats.executions += 1;
        stats.points += trace.choices.len() as u64;
        stats.max_points = stats.max_points.max(trace.choices.len());
        stats.max_arity = stats
            .max_arity
            .max(trace.arities.iter().cloned().max().unwrap_or(0));
        if let Some(d) = &trace.divergence {
            stats.divergences.push(d.clone());
        }
        if trace.choices.len() < prefix.len() {
            stats.divergences.push(format!(
                "replay divergence: prefix has {} answers but the execution had only {} points",
                prefix.len(),
                trace.choices.len()
            ));
        }
        visit(&trace.choices, &trace.arities, obs);
        let mut deviations = trace.choices[..prefix.len().min(trace.choices.len())]
            .iter()
            .filter(|c| **c != 0)
            .count();
        // children: deviate at a point after the prefix (points inside the prefix were handled by ancestors)
        for i in prefix.len()..trace.choices.len() {
            if deviations + 1 > bound {
                break;
            }
            for alt in 1..trace.arities[i] {
                let mut p = trace.choices[..i].to_vec();
                p.push(alt);
                stack.push(p);
            }
            if trace.choices[i] != 0 {
                deviations += 1;
            }
        }
    }
    stats
}

/// the permutation of `0..n` selected by answer `c` at a hash-order point:
/// n <= 3: the c-th permutation in lexicographic order (0 = identity);
/// n > 3: 0 = identity, 1..n-1 = adjacent transposition (c-1, c), n = reversal
pub fn order_for(n: usize, c: usize) -> Vec<usize> {
    if n <= 3 {
        let idx: Vec<usize> = (0..n).collect();
        let perms = crate::docspace::permutations(&idx);
        perms[c.min(perms.len() - 1)].clone()
    } else {
        let mut v: Vec<usize> = (0..n).collect();
        if c == 0 {
        } else if c < n {
            v.swap(c - 1, c);
        } else {
            v.reverse();
        }
        v
    }
}

pub fn order_arity(n: usize) -> usize {
    match n {
        0 | 1 => 1,
        2 => 2,
        3 => 6,
        _ => n + 1,
    }
}

#[cfg(test)]
mod tests {
    use super::*;

    #[test]
    fn counts_executions_of_a_fixed_tree() {
        // three binary points: bound 0 -> 1, bound 1 -> 4, bound 2 -> 7, bound 3 -> 8
        for (bound, want) in [(0, 1), (1, 4), (2, 7), (3, 8)] {
            let mut seen = std::collections::HashSet::new();
            let st = explore(
                bound,
                1000,
                &|ch: &Chooser| (ch.choose(2), ch.choose(2), ch.choose(2)),
                &mut |_, _, o| {
                    assert!(seen.insert(o));
                },
            );
            assert_eq!(st.executions, want);
            assert!(st.divergences.is_empty());
        }
    }

    #[test]
    fn orders() {
        assert_eq!(order_for(3, 0), vec![0, 1, 2]);
        assert_eq!(order_for(3, 5), vec![2, 1, 0]);
        assert_eq!(order_for(6, 6), vec![5, 4, 3, 2, 1, 0]);
        assert_eq!(order_for(6, 2), vec![0, 2, 1, 3, 4, 5]);
    }
}
