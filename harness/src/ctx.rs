//! Run context shared by all property checks: tier/seed, violation classes, known findings,
//! replay artefacts, evidence file, exit code.

use serde_json::{json, Map, Value};
use std::collections::BTreeMap;
use std::sync::Mutex;
use std::time::{Duration, Instant};

#[derive(Clone, Copy, Debug, PartialEq, Eq)]
pub enum Tier {
    Quick,
    Thorough,
}

impl Tier {
    pub fn name(self) -> &'static str {
        match self {
            Tier::Quick => "quick",
            Tier::Thorough => "thorough",
        }
    }
    pub fn pick<T>(self, quick: T, thorough: T) -> T {
        match self {
            Tier::Quick => quick,
            Tier::Thorough => thorough,
        }
    }
}

#[derive(Clone, Debug)]
pub struct Violation {
    /// class of the violation: kind plus computed cause; known findings are matched on it
    pub class: String,
    /// one line for humans
    pub summary: String,
    /// self-contained case description, re-executable with `--replay`
    pub replay: Value,
    /// smaller = simpler; the simplest instance of a class is kept as its witness
    pub rank: u64,
}

struct ClassRec {
    count: u64,
    first: Violation,
}

#[derive(Clone, Debug)]
pub struct Known {
    pub property: String,
    pub class: String,
    pub what: String,
}

pub struct Ctx {
    pub prop: String,
    pub level: &'static str,
    pub tier: Tier,
    pub seed: u64,
    pub threads: usize,
    pub verif_dir: String,
    start: Instant,
    pub deadline: Instant,
    classes: Mutex<BTreeMap<String, ClassRec>>,
    cov: Mutex<Map<String, Value>>,
    samples: Mutex<Vec<(u64, Value)>>,
    sample_threshold: std::sync::atomic::AtomicU64,
    assumptions: Mutex<Vec<String>>,
    machinery: Mutex<Vec<String>>,
    /// complaints of the machinery that only count when no violation explains them (merge audit)
    machinery_soft: Mutex<Vec<String>>,
    known: Vec<Known>,
    pub replaying: bool,
}

pub fn verif_dir() -> String {
    std::env::var("XSGV_DIR").unwrap_or_else(|_| "/verif".to_string())
}

/// where evidence and replay files go (XSGV_OUT redirects them, e.g. while trying mutants)
pub fn out_dir() -> String {
    std::env::var("XSGV_OUT").unwrap_or_else(|_| verif_dir())
}

pub fn mix(seed: u64, x: u64) -> u64 {
    // splitmix64 finaliser
    let mut z = seed ^ x.wrapping_mul(0x9E3779B97F4A7C15);
    z = (z ^ (z >> 30)).wrapping_mul(0xBF58476D1CE4E5B9);
    z = (z ^ (z >> 27)).wrapping_mul(0x94D049BB133111EB);
    z ^ (z >> 31)
}

pub fn fnv(s: &str) -> u64 {
    let mut h: u64 = 0xcbf29ce484222325;
    for b in s.bytes() {
        h ^= b as u64;
        h = h.wrapping_mul(0x100000001b3);
    }
    h
}

impl Ctx {
    pub fn new(prop: &str, level: &'static str, tier: Tier, budget_s: u64) -> Ctx {
        let seed = std::env::var("VERIF_SEED")
            .ok()
            .and_then(|s| s.trim().parse::<i64>().ok())
            .map(|v| v as u64)
            .unwrap_or(0);
        let threads = std::env::var("XSGV_THREADS")
            .ok()
            .and_then(|s| s.parse().ok())
            .unwrap_or_else(|| {
                std::thread::available_parallelism()
                    .map(|n| n.get())
                    .unwrap_or(4)
                    .min(16)
            });
        let dir = verif_dir();
        let known = load_known(&format!("{}/known_findings.json", dir), prop);
        let start = Instant::now();
        Ctx {
            prop: prop.to_string(),
            level,
            tier,
            seed,
            threads,
            verif_dir: dir,
            start,
            deadline: start + Duration::from_secs(budget_s),
            classes: Mutex::new(BTreeMap::new()),
            cov: Mutex::new(Map::new()),
            samples: Mutex::new(Vec::new()),
            sample_threshold: std::sync::atomic::AtomicU64::new(u64::MAX),
            assumptions: Mutex::new(Vec::new()),
            machinery: Mutex::new(Vec::new()),
            machinery_soft: Mutex::new(Vec::new()),
            known,
            replaying: false,
        }
    }

    pub fn out_of_time(&self) -> bool {
        Instant::now() >= self.deadline
    }

    pub fn report(&self, v: Violation) {
        let mut c = self.classes.lock().unwrap();
        match c.get_mut(&v.class) {
            Some(rec) => {
                rec.count += 1;
                if v.rank < rec.first.rank {
                    rec.first = v;
                }
            }
            None => {
                c.insert(v.class.clone(), ClassRec { count: 1, first: v });
            }
        }
    }

    pub fn report_all(&self, vs: Vec<Violation>) {
        for v in vs {
            self.report(v);
        }
    }

    /// a failure of the machinery itself (self-check, replay divergence ...): exit code 2, never a verdict
    pub fn machinery_error(&self, msg: String) {
        eprintln!("MACHINERY-ERROR: {}", msg);
        self.machinery.lock().unwrap().push(msg);
    }

    /// a complaint that is a machinery error only if the run finds no violation: a library whose
    /// behaviour depends on something the state key deliberately drops (counters, text payload) fails
    /// the merge audit *because* it violates the property, and the violation is the verdict then
    pub fn machinery_soft(&self, msg: String) {
        eprintln!("MACHINERY-NOTE: {}", msg);
        self.machinery_soft.lock().unwrap().push(msg);
    }

    pub fn set(&self, key: &str, v: Value) {
        self.cov.lock().unwrap().insert(key.to_string(), v);
    }

    pub fn add(&self, key: &str, n: u64) {
        let mut c = self.cov.lock().unwrap();
        let cur = c.get(key).and_then(|v| v.as_u64()).unwrap_or(0);
        c.insert(key.to_string(), json!(cur + n));
    }

    pub fn get_u64(&self, key: &str) -> u64 {
        self.cov
            .lock()
            .unwrap()
            .get(key)
            .and_then(|v| v.as_u64())
            .unwrap_or(0)
    }

    /// append to a list-valued coverage key
    pub fn push(&self, key: &str, v: Value) {
        let mut c = self.cov.lock().unwrap();
        let e = c.entry(key.to_string()).or_insert_with(|| json!([]));
        if let Some(a) = e.as_array_mut() {
            a.push(v);
        }
    }

    pub fn assume(&self, s: &str) {
        let mut a = self.assumptions.lock().unwrap();
        if !a.iter().any(|x| x == s) {
            a.push(s.to_string());
        }
    }

    /// offer a sample; the `keep` with the smallest seeded hashes survive
    pub fn sample(&self, id: u64, make: impl FnOnce() -> Value) {
        const KEEP: usize = 8;
        let h = mix(self.seed, id);
        let mut s = self.samples.lock().unwrap();
        if s.len() < KEEP || h < s.last().map(|x| x.0).unwrap_or(u64::MAX) {
            s.push((h, make()));
            s.sort_by_key(|x| x.0);
            s.truncate(KEEP);
            if s.len() == KEEP {
                self.sample_threshold
                    .store(s[KEEP - 1].0, std::sync::atomic::Ordering::Relaxed);
            }
        }
    }

    pub fn sample_hash_qualifies(&self, id: u64) -> bool {
        mix(self.seed, id) < self.sample_threshold.load(std::sync::atomic::Ordering::Relaxed)
    }

    pub fn elapsed(&self) -> f64 {
        self.start.elapsed().as_secs_f64()
    }

    /// write evidence, print verdict lines, return the process exit code
    pub fn finish(self) -> i32 {
        let classes = self.classes.into_inner().unwrap();
        let mut machinery = self.machinery.into_inner().unwrap();
        let soft = self.machinery_soft.into_inner().unwrap();
        let any_unknown = classes.keys().any(|c| !self.known.iter().any(|k| &k.class == c));
        if !any_unknown {
            machinery.extend(soft.iter().cloned());
        }
        let mut exit = 0;
        let mut unknown = 0u64;
        let mut known_hits = Vec::new();
        let mut lines = 0;
        for (class, rec) in classes.iter() {
            if let Some(k) = self.known.iter().find(|k| &k.class == class) {
                println!(
                    "KNOWN-FINDING: property={} class={} instances={} {} | witness: {}",
                    self.prop, class, rec.count, k.what, rec.first.summary
                );
                known_hits.push(json!({"class": class, "instances": rec.count, "witness": rec.first.summary}));
                continue;
            }
            unknown += rec.count;
            exit = 1;
            let dir = format!("{}/replays/{}", out_dir(), self.prop);
            let _ = std::fs::create_dir_all(&dir);
            let path = format!("{}/{:016x}.json", dir, fnv(class));
            let body = json!({
                "property": self.prop,
                "class": class,
                "summary": rec.first.summary,
                "instances_in_run": rec.count,
                "case": rec.first.replay,
            });
            if let Err(e) = std::fs::write(&path, serde_json::to_string_pretty(&body).unwrap()) {
                eprintln!("MACHINERY-ERROR: cannot write replay {}: {}", path, e);
            }
            if lines < 20 {
                println!("VIOLATION property={} replay={}", self.prop, path);
                println!("  class={} instances={} :: {}", class, rec.count, rec.first.summary);
                lines += 1;
            }
        }
        if self.replaying {
            return if !machinery.is_empty() { 2 } else { exit };
        }
        let mut cov = self.cov.into_inner().unwrap();
        let mut samples: Vec<Value> = self
            .samples
            .into_inner()
            .unwrap()
            .into_iter()
            .map(|x| x.1)
            .collect();
        if let Some(Value::Array(extra)) = cov.remove("samples") {
            samples.extend(extra);
        }
        cov.insert("samples".into(), Value::Array(samples));
        if !known_hits.is_empty() {
            cov.insert("known_findings_hit".into(), Value::Array(known_hits));
        }
        if !machinery.is_empty() {
            cov.insert("machinery_errors".into(), json!(machinery));
            cov.insert("exhaustive".into(), json!(false));
        }
        if any_unknown && !soft.is_empty() {
            cov.insert("machinery_notes".into(), json!(soft));
        }
        let ev = json!({
            "property_id": self.prop,
            "tier": self.tier.name(),
            "seed": self.seed as i64,
            "level": self.level,
            "coverage": Value::Object(cov),
            "assumptions": self.assumptions.into_inner().unwrap(),
            "wall_s": (self.start.elapsed().as_secs_f64() * 1000.0).round() / 1000.0,
            "violations": unknown,
        });
        let dir = format!("{}/evidence", out_dir());
        let _ = std::fs::create_dir_all(&dir);
        let path = format!("{}/{}.json", dir, self.prop);
        if let Err(e) = std::fs::write(&path, serde_json::to_string_pretty(&ev).unwrap() + "\n") {
            eprintln!("MACHINERY-ERROR: cannot write evidence {}: {}", path, e);
            return 2;
        }
        if !machinery.is_empty() {
            return 2;
        }
        if exit == 0 {
            println!(
                "OK property={} tier={} wall={:.1}s evidence={}",
                self.prop,
                self.tier.name(),
                self.start.elapsed().as_secs_f64(),
                path
            );
        }
        exit
    }
}

fn load_known(path: &str, prop: &str) -> Vec<Known> {
    let text = match std::fs::read_to_string(path) {
        Ok(t) => t,
        Err(_) => return Vec::new(),
    };
    let v: Value = match serde_json::from_str(&text) {
        Ok(v) => v,
        Err(e) => {
            eprintln!("MACHINERY-ERROR: {} is not valid JSON: {}", path, e);
            std::process::exit(2);
        }
    };
    let mut out = Vec::new();
    if let Some(arr) = v.get("findings").and_then(|f| f.as_array()) {
        for f in arr {
            let p = f.get("property").and_then(|x| x.as_str()).unwrap_or("");
            if p != prop {
                continue;
            }
            out.push(Known {
                property: p.to_string(),
                class: f.get("class").and_then(|x| x.as_str()).unwrap_or("").to_string(),
                what: f.get("what").and_then(|x| x.as_str()).unwrap_or("").to_string(),
            });
        }
    }
    out
}
