use xsgv::ctx::{Ctx, Tier};

fn usage() -> ! {
    eprintln!("usage: xsgv <C01..C16> [--tier quick|thorough] [--replay <file>]");
    std::process::exit(2);
}

/// `xsgv repeat <in_thread> <fresh_threads>`: reads one JSON array of documents per line from
/// stdin, prints one JSON array of distinct observations (as fnv hashes, first one in full when
/// there are several) per line. Works in both builds; the hooks-off build is the shipped library
fn repeat_cmd(args: &[String]) -> i32 {
    use std::io::{BufRead, Write};
    let in_thread: usize = args.get(1).and_then(|s| s.parse().ok()).unwrap_or(3);
    let fresh: usize = args.get(2).and_then(|s| s.parse().ok()).unwrap_or(8);
    xsgv::subject::silence_panics();
    // `repeat ... noise-first`: this process does unrelated work (other options, other documents)
    // before the first case, so that process-wide state set by "the first call" differs between
    // the two helper processes
    if args.get(3).map(|s| s.as_str()) == Some("noise-first") {
        xsgv::subject::noise();
    }
    let stdin = std::io::stdin();
    let stdout = std::io::stdout();
    let mut out = std::io::BufWriter::new(stdout.lock());
    for line in stdin.lock().lines() {
        let line = match line {
            Ok(l) => l,
            Err(_) => return 2,
        };
        if line.trim().is_empty() {
            continue;
        }
        let docs: Vec<String> = match serde_json::from_str(&line) {
            Ok(d) => d,
            Err(_) => return 2,
        };
        let outs = xsgv::subject::repeat_history(&docs, in_thread, fresh);
        let v = if outs.len() == 1 {
            serde_json::json!({"n": 1, "hash": format!("{:016x}", xsgv::ctx::fnv(&outs[0]))})
        } else {
            serde_json::json!({"n": outs.len(), "hash": format!("{:016x}", xsgv::ctx::fnv(&outs[0])), "outs": outs})
        };
        if writeln!(out, "{}", v).is_err() {
            return 2;
        }
    }
    0
}

#[cfg(feature = "hooks")]
fn main() {
    let args: Vec<String> = std::env::args().skip(1).collect();
    if args.is_empty() {
        usage();
    }
    if args[0] == "repeat" {
        std::process::exit(repeat_cmd(&args));
    }
    if args[0] == "c07-worker" {
        if args.len() < 6 {
            usage();
        }
        std::process::exit(xsgv::props::c07::worker_main(&args));
    }
    let prop = args[0].to_uppercase();
    let mut tier = match std::env::var("VERIF_TIER").ok().as_deref() {
        Some("thorough") => Tier::Thorough,
        _ => Tier::Quick,
    };
    let mut replay: Option<String> = None;
    let mut i = 1;
    while i < args.len() {
        match args[i].as_str() {
            "--tier" => {
                i += 1;
                tier = match args.get(i).map(|s| s.as_str()) {
                    Some("quick") => Tier::Quick,
                    Some("thorough") => Tier::Thorough,
                    _ => usage(),
                };
            }
            "--replay" => {
                i += 1;
                replay = Some(args.get(i).cloned().unwrap_or_else(|| usage()));
            }
            _ => usage(),
        }
        i += 1;
    }
    xsgv::subject::silence_panics();
    // a panic of the harness itself (not of the library, which is always called guarded) is a
    // machinery failure with a message, never a silent exit
    let code = match std::panic::catch_unwind(|| xsgv::props::dispatch(&prop, tier, replay.as_deref())) {
        Ok(c) => c,
        Err(p) => {
            let msg = p.downcast_ref::<&str>().map(|s| s.to_string()).or_else(|| p.downcast_ref::<String>().cloned()).unwrap_or_default();
            let loc = xsgv::subject::LAST_PANIC_LOCATION.with(|c| c.borrow().clone()).unwrap_or_default();
            eprintln!("MACHINERY-ERROR: the harness panicked while checking {} ({} {})", prop, msg, loc);
            println!("MACHINERY-ERROR: the harness panicked while checking {} ({} {})", prop, msg, loc);
            2
        }
    };
    std::process::exit(code);
}

#[cfg(not(feature = "hooks"))]
fn main() {
    let _ = (Ctx::new, Tier::Quick);
    let args: Vec<String> = std::env::args().skip(1).collect();
    if !args.is_empty() && args[0] == "repeat" {
        std::process::exit(repeat_cmd(&args));
    }
    usage();
}
