use xsgv::ctx::{Ctx, Tier};

fn usage() -> ! {
    eprintln!("usage: xsgv <C01..C16> [--tier quick|thorough] [--replay <file>]");
    std::process::exit(2);
}

#[cfg(feature = "hooks")]
fn main() {
    let args: Vec<String> = std::env::args().skip(1).collect();
    if args.is_empty() {
        usage();
    }
    let prop = args[0].to_uppercase();
    let mut tier = match std::env::var("VERIF_TIER").ok().as_deref() {
        Some("thorough") => Tier::Thorough,
        _ => Tier::Quick,
    };
    let mut replay: Option<String> = None;
    let mut i = 1;
    while i < args.len() {
        match args[i].as_str() {
            "--tier" => {
                i += 1;
                tier = match args.get(i).map(|s| s.as_str()) {
                    Some("quick") => Tier::Quick,
                    Some("thorough") => Tier::Thorough,
                    _ => usage(),
                };
            }
            "--replay" => {
                i += 1;
                replay = Some(args.get(i).cloned().unwrap_or_else(|| usage()));
            }
            _ => usage(),
        }
        i += 1;
    }
    xsgv::subject::silence_panics();
    let code = xsgv::props::dispatch(&prop, tier, replay.as_deref());
    std::process::exit(code);
}

#[cfg(not(feature = "hooks"))]
fn main() {
    let _ = (Ctx::new, Tier::Quick);
    usage();
}
