//! Generated-program farm: every distinct rendering of a bounded case space is written out as a
//! Rust module (`use serde::{Deserialize, Serialize};` + the rendered text unchanged), compiled by
//! rustc in 16 shard binaries and executed against its own source documents.

use crate::ctx::Ctx;
use crate::rsast::parse_rendered;
use serde_json::Value;
use std::collections::HashMap;
use std::path::{Path, PathBuf};
use std::process::{Command, Stdio};

#[derive(Clone, Copy, Debug, PartialEq, Eq)]
pub enum Flavor {
    QuickXml,
    SerdeXmlRs,
}

#[derive(Clone, Debug)]
pub struct Program {
    /// the rendered text, unchanged
    pub source: String,
    /// source documents (deduplicated)
    pub docs: Vec<String>,
}

#[derive(Clone, Debug, Default)]
pub struct DocRun {
    pub ok: bool,
    pub leaves: Vec<String>,
    pub error: String,
}

#[derive(Clone, Debug, Default)]
pub struct ProgResult {
    pub compile_error: Option<String>,
    /// variant name ("plain", "deny") -> per document
    pub runs: HashMap<String, Vec<Option<DocRun>>>,
}

const SHARDS: usize = 16;

fn rust_str(s: &str) -> String {
    // a raw string with enough hashes
    let mut hashes = 1;
    while s.contains(&format!("\"{}", "#".repeat(hashes))) {
        hashes += 1;
    }
    let h = "#".repeat(hashes);
    format!("r{}\"{}\"{}", h, s, h)
}

fn case_file(idx: usize, variant: &str, source: &str, first_struct: &str, docs: &[String], flavor: Flavor) -> String {
    let call = match flavor {
        Flavor::QuickXml => "quick_xml::de::from_str",
        Flavor::SerdeXmlRs => "serde_xml_rs::from_str",
    };
    let mut s = String::new();
    s.push_str("#![allow(non_snake_case, non_camel_case_types, dead_code, unused_imports)]\n");
    s.push_str("use serde::{Deserialize, Serialize};\n\n");
    s.push_str(source);
    s.push_str("\npub const DOCS: &[&str] = &[\n");
    for d in docs {
        s.push_str("    ");
        s.push_str(&rust_str(d));
        s.push_str(",\n");
    }
    s.push_str("];\n\n");
    s.push_str(&format!(
        "pub fn run(out: &mut Vec<String>) {{\n    for (i, d) in DOCS.iter().enumerate() {{\n        let r = {}::<{}>(d);\n        out.push(farm::report({}, \"{}\", i, r.as_ref().map(|v| farm::leaves(v)).map_err(|e| e.to_string())));\n    }}\n}}\n",
        call, first_struct, idx, variant
    ));
    s
}

fn stub_file(idx: usize, variant: &str) -> String {
    format!(
        "pub fn run(out: &mut Vec<String>) {{\n    out.push(String::from(\"{{\\\"p\\\":{},\\\"v\\\":\\\"{}\\\",\\\"stub\\\":true}}\"));\n}}\n",
        idx, variant
    )
}

pub fn with_deny_unknown_fields(source: &str) -> String {
    source.replace("pub struct ", "#[serde(deny_unknown_fields)]\npub struct ")
}

pub struct Farm {
    pub dir: PathBuf,
    pub target: PathBuf,
    pub flavor: Flavor,
}

impl Farm {
    pub fn new(ctx: &Ctx, name: &str, flavor: Flavor) -> Farm {
        Farm {
            dir: PathBuf::from(format!("{}/work/farm-{}", ctx.verif_dir, name)),
            target: PathBuf::from(format!("{}/target/farm", ctx.verif_dir)),
            flavor,
        }
    }

    fn prepare(&self, ctx: &Ctx) -> Result<(), String> {
        let _ = std::fs::remove_dir_all(&self.dir);
        std::fs::create_dir_all(self.dir.join("src/bin")).map_err(|e| e.to_string())?;
        std::fs::create_dir_all(self.dir.join("cases")).map_err(|e| e.to_string())?;
        let tpl = PathBuf::from(format!("{}/farm-template", ctx.verif_dir));
        std::fs::copy(tpl.join("Cargo.toml"), self.dir.join("Cargo.toml")).map_err(|e| e.to_string())?;
        std::fs::copy(tpl.join("src/lib.rs"), self.dir.join("src/lib.rs")).map_err(|e| e.to_string())?;
        std::fs::copy("/repo/Cargo.lock", self.dir.join("Cargo.lock")).map_err(|e| format!("copy /repo/Cargo.lock: {}", e))?;
        Ok(())
    }

    fn build(&self) -> Result<Vec<(String, String)>, String> {
        match self.build_once() {
            Err(e) if e.contains("without attributable diagnostics") => {
                // cargo caches the answers of its `rustc -vV` / target-information probes in
                // <target>/.rustc_info.json, failures included: a probe that failed once (seen on a heavily
                // loaded machine) would fail every later build. Drop the cache and try once more.
                let _ = std::fs::remove_file(self.target.join(".rustc_info.json"));
                self.build_once()
            }
            r => r,
        }
    }

    fn build_once(&self) -> Result<Vec<(String, String)>, String> {
        // returns (file, message) for every error diagnostic
        let out = Command::new("cargo")
            .args(["build", "--offline", "--bins", "--message-format=json", "--target-dir"])
            .arg(&self.target)
            .current_dir(&self.dir)
            .env("CARGO_NET_OFFLINE", "true")
            .stdin(Stdio::null())
            .output()
            .map_err(|e| format!("cargo: {}", e))?;
        let mut errors = Vec::new();
        for line in String::from_utf8_lossy(&out.stdout).lines() {
            let v: Value = match serde_json::from_str(line) {
                Ok(v) => v,
                Err(_) => continue,
            };
            if v["reason"] != "compiler-message" || v["message"]["level"] != "error" {
                continue;
            }
            let msg = v["message"]["message"].as_str().unwrap_or("").to_string();
            let mut file = String::new();
            if let Some(spans) = v["message"]["spans"].as_array() {
                for sp in spans {
                    if let Some(f) = sp["file_name"].as_str() {
                        if f.contains("cases/") {
                            file = f.to_string();
                        }
                    }
                    // expansions (derive macros) carry the user file in the expansion chain
                    let mut exp = &sp["expansion"];
                    while exp.is_object() {
                        if let Some(f) = exp["span"]["file_name"].as_str() {
                            if f.contains("cases/") {
                                file = f.to_string();
                            }
                        }
                        exp = &exp["span"]["expansion"];
                    }
                }
            }
            if file.is_empty() {
                // diagnostics without a usable span: look for the module name of a program in the text
                let hay = format!("{} {}", msg, v["message"]["rendered"].as_str().unwrap_or(""));
                if let Some(pos) = hay.find("p_") {
                    let tail: String = hay[pos..].chars().take_while(|c| c.is_ascii_alphanumeric() || *c == '_').collect();
                    let parts: Vec<&str> = tail.split('_').collect();
                    if parts.len() >= 3 && parts[1].parse::<usize>().is_ok() && (parts[2] == "plain" || parts[2] == "deny") {
                        file = format!("cases/p_{}_{}.rs", parts[1], parts[2]);
                    }
                }
            }
            errors.push((file, msg));
        }
        if !out.status.success() && errors.is_empty() {
            return Err(format!(
                "cargo build failed without attributable diagnostics: {}",
                String::from_utf8_lossy(&out.stderr).lines().rev().take(15).collect::<Vec<_>>().join(" | ")
            ));
        }
        Ok(errors)
    }

    /// compile and run all programs; `variants` = [("plain", false)] or with ("deny", true)
    pub fn run(&self, ctx: &Ctx, programs: &[Program], deny_variant: bool) -> Result<Vec<ProgResult>, String> {
        self.prepare(ctx)?;
        let mut results: Vec<ProgResult> = vec![ProgResult::default(); programs.len()];
        let variants: Vec<&str> = if deny_variant { vec!["plain", "deny"] } else { vec!["plain"] };
        let mut shard_mods: Vec<Vec<String>> = vec![Vec::new(); SHARDS];
        for (i, p) in programs.iter().enumerate() {
            let first = match parse_rendered(&p.source) {
                Ok(s) if !s.is_empty() => s[0].name.clone(),
                _ => {
                    results[i].compile_error = Some("rendered text is not readable by the line grammar".into());
                    continue;
                }
            };
            for v in &variants {
                let src = if *v == "deny" { with_deny_unknown_fields(&p.source) } else { p.source.clone() };
                let modname = format!("p_{}_{}", i, v);
                std::fs::write(self.dir.join(format!("cases/{}.rs", modname)), case_file(i, v, &src, &first, &p.docs, self.flavor)).map_err(|e| e.to_string())?;
                shard_mods[i % SHARDS].push(modname);
            }
        }
        for (s, mods) in shard_mods.iter().enumerate() {
            let mut f = String::new();
            for m in mods {
                f.push_str(&format!("#[path = \"../../cases/{}.rs\"]\nmod {};\n", m, m));
            }
            f.push_str("fn main() {\n    let mut out: Vec<String> = Vec::new();\n");
            for m in mods {
                f.push_str(&format!("    {}::run(&mut out);\n", m));
            }
            f.push_str("    println!(\"{}\", out.join(\"\\n\"));\n}\n");
            std::fs::write(self.dir.join(format!("src/bin/shard_{:02}.rs", s)), f).map_err(|e| e.to_string())?;
        }
        // build, stubbing out programs that do not compile (at most 4 rounds)
        for round in 0..4 {
            let errors = self.build()?;
            if errors.is_empty() {
                break;
            }
            if round == 3 {
                return Err("farm still does not build after stubbing out failing programs three times".into());
            }
            let mut stubbed = 0;
            for (file, msg) in errors {
                let stem = Path::new(&file).file_stem().and_then(|s| s.to_str()).unwrap_or("").to_string();
                let parts: Vec<&str> = stem.split('_').collect();
                if parts.len() == 3 && parts[0] == "p" {
                    if let Ok(i) = parts[1].parse::<usize>() {
                        if results[i].compile_error.is_none() {
                            results[i].compile_error = Some(format!("[{} variant] {}", parts[2], msg));
                        }
                        std::fs::write(self.dir.join(format!("cases/{}.rs", stem)), stub_file(i, parts[2])).map_err(|e| e.to_string())?;
                        stubbed += 1;
                    }
                } else {
                    return Err(format!("compile error outside the generated programs: {} ({})", msg, file));
                }
            }
            if stubbed == 0 {
                return Err("compile errors could not be attributed to a program".into());
            }
        }
        // run the shards
        let outputs: Vec<Result<String, String>> = std::thread::scope(|s| {
            let hs: Vec<_> = (0..SHARDS)
                .map(|i| {
                    let bin = self.target.join(format!("debug/shard_{:02}", i));
                    s.spawn(move || -> Result<String, String> {
                        let out = Command::new(&bin).stdin(Stdio::null()).output().map_err(|e| format!("{}: {}", bin.display(), e))?;
                        if !out.status.success() {
                            return Err(format!("{} exited with {:?}: {}", bin.display(), out.status, String::from_utf8_lossy(&out.stderr).chars().take(400).collect::<String>()));
                        }
                        Ok(String::from_utf8_lossy(&out.stdout).to_string())
                    })
                })
                .collect();
            hs.into_iter().map(|h| h.join().unwrap_or_else(|_| Err("shard thread panicked".into()))).collect()
        });
        for o in outputs {
            for line in o?.lines() {
                if line.trim().is_empty() {
                    continue;
                }
                let v: Value = serde_json::from_str(line).map_err(|e| format!("bad shard output `{}`: {}", line, e))?;
                let p = v["p"].as_u64().unwrap_or(0) as usize;
                if v.get("stub").is_some() || p >= results.len() {
                    continue;
                }
                let variant = v["v"].as_str().unwrap_or("plain").to_string();
                let d = v["d"].as_u64().unwrap_or(0) as usize;
                let run = DocRun {
                    ok: v["ok"].as_bool().unwrap_or(false),
                    leaves: v["leaves"].as_array().map(|a| a.iter().filter_map(|x| x.as_str().map(|s| s.to_string())).collect()).unwrap_or_default(),
                    error: v["error"].as_str().unwrap_or("").to_string(),
                };
                let slot = results[p].runs.entry(variant).or_insert_with(|| vec![None; programs[p].docs.len()]);
                if d < slot.len() {
                    slot[d] = Some(run);
                }
            }
        }
        let _ = std::fs::remove_dir_all(&self.dir);
        Ok(results)
    }
}
