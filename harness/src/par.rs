//! Sharded exhaustive runner: index ranges are dealt to workers in chunks; every worker owns an
//! accumulator; accumulators are returned in worker order. Sums over accumulators are independent
//! of scheduling, so counts are reproducible.

use std::sync::atomic::{AtomicBool, AtomicU64, Ordering};
use std::time::Instant;

pub struct ParResult<A> {
    pub accs: Vec<A>,
    pub processed: u64,
    pub complete: bool,
}

pub fn par_for<A: Send>(
    n: u64,
    threads: usize,
    chunk: u64,
    deadline: Option<Instant>,
    mk: impl Fn(usize) -> A + Sync,
    f: impl Fn(&mut A, u64) + Sync,
) -> ParResult<A> {
    let next = AtomicU64::new(0);
    let processed = AtomicU64::new(0);
    let stopped = AtomicBool::new(false);
    let threads = threads.max(1);
    let chunk = chunk.max(1);
    let accs: Vec<A> = std::thread::scope(|s| {
        let handles: Vec<_> = (0..threads)
            .map(|t| {
                let next = &next;
                let processed = &processed;
                let stopped = &stopped;
                let mk = &mk;
                let f = &f;
                std::thread::Builder::new()
                    .stack_size(16 << 20)
                    .spawn_scoped(s, move || {
                        let mut acc = mk(t);
                        let rss_limit = rss_limit_mib();
                        loop {
                            if let Some(d) = deadline {
                                if Instant::now() >= d {
                                    stopped.store(true, Ordering::Relaxed);
                                    break;
                                }
                            }
                            // memory budget: stop cleanly (the run is reported as capped) instead of
                            // being killed by the kernel
                            if stopped.load(Ordering::Relaxed) || rss_mib() > rss_limit {
                                stopped.store(true, Ordering::Relaxed);
                                break;
                            }
                            let start = next.fetch_add(chunk, Ordering::Relaxed);
                            if start >= n {
                                break;
                            }
                            let end = (start + chunk).min(n);
                            for i in start..end {
                                f(&mut acc, i);
                            }
                            processed.fetch_add(end - start, Ordering::Relaxed);
                        }
                        acc
                    })
                    .expect("spawn worker")
            })
            .collect();
        handles
            .into_iter()
            .map(|h| match h.join() {
                Ok(a) => a,
                Err(p) => std::panic::resume_unwind(p),
            })
            .collect()
    });
    let processed = processed.load(Ordering::Relaxed);
    ParResult {
        accs,
        processed,
        complete: processed >= n && !stopped.load(Ordering::Relaxed) || processed >= n,
    }
}

/// memory budget of one check in MiB (XSGV_RSS_LIMIT_MIB, default 16 GiB)
pub fn rss_limit_mib() -> u64 {
    std::env::var("XSGV_RSS_LIMIT_MIB").ok().and_then(|s| s.parse().ok()).unwrap_or(16 * 1024)
}

/// resident set size of this process in MiB
pub fn rss_mib() -> u64 {
    std::fs::read_to_string("/proc/self/statm")
        .ok()
        .and_then(|s| s.split_whitespace().nth(1).and_then(|x| x.parse::<u64>().ok()))
        .map(|pages| pages * 4096 / (1 << 20))
        .unwrap_or(0)
}
