//! Reference inference: the schema *defined* by a set of documents, computed from harness DOMs.
//!
//! Deliberately unlike the implementation: no counters, snapshots or demotions. Every position
//! (path of element names) gets the list of its occurrences; a field is optional iff it is missing
//! from some occurrence, multiple iff some occurrence holds it more than once, text iff some
//! occurrence has a text or CDATA node. Orders are first-appearance orders (documents in supply
//! order, occurrences in document order, attributes in tag order, children in start-tag order).

use crate::dom::Node;

#[derive(Clone, Debug, PartialEq, Eq, Hash)]
pub struct SAttr {
    pub name: String,
    pub optional: bool,
}

#[derive(Clone, Debug, PartialEq, Eq, Hash)]
pub struct SChild {
    pub name: String,
    pub optional: bool,
    pub multiple: bool,
    pub node: SNode,
}

#[derive(Clone, Debug, PartialEq, Eq, Hash, Default)]
pub struct SNode {
    pub attrs: Vec<SAttr>,
    pub text: bool,
    pub children: Vec<SChild>,
}

impl SNode {
    /// a position that is rendered as `String` instead of getting a struct
    pub fn string_typed(&self) -> bool {
        self.text && self.attrs.is_empty() && self.children.is_empty()
    }

    /// same schema with attributes and children sorted by name (order-free comparison)
    pub fn sorted(&self) -> SNode {
        let mut attrs = self.attrs.clone();
        attrs.sort_by(|a, b| a.name.cmp(&b.name));
        let mut children: Vec<SChild> = self
            .children
            .iter()
            .map(|c| SChild {
                name: c.name.clone(),
                optional: c.optional,
                multiple: c.multiple,
                node: c.node.sorted(),
            })
            .collect();
        children.sort_by(|a, b| a.name.cmp(&b.name));
        SNode {
            attrs,
            text: self.text,
            children,
        }
    }

    pub fn child(&self, name: &str) -> Option<&SChild> {
        self.children.iter().find(|c| c.name == name)
    }

    pub fn attr(&self, name: &str) -> Option<&SAttr> {
        self.attrs.iter().find(|c| c.name == name)
    }

    /// number of positions (this one included)
    pub fn positions(&self) -> usize {
        1 + self.children.iter().map(|c| c.node.positions()).sum::<usize>()
    }

    /// compact one-line form, used as a distinctness key and in samples
    pub fn key(&self) -> String {
        let mut s = String::new();
        self.write_key(&mut s);
        s
    }

    fn write_key(&self, s: &mut String) {
        s.push('{');
        for a in &self.attrs {
            s.push('@');
            s.push_str(&a.name);
            if a.optional {
                s.push('?');
            }
            s.push(' ');
        }
        if self.text {
            s.push_str("#text ");
        }
        for c in &self.children {
            s.push_str(&c.name);
            if c.optional {
                s.push('?');
            }
            if c.multiple {
                s.push('*');
            }
            c.node.write_key(s);
            s.push(' ');
        }
        s.push('}');
    }

    /// `self` admits everything `other` admits (monotonicity: no field lost, no Option -> required,
    /// no Vec -> single, no text lost)
    pub fn admits(&self, other: &SNode) -> Result<(), String> {
        for a in &other.attrs {
            match self.attr(&a.name) {
                None => return Err(format!("attribute {} lost", a.name)),
                Some(mine) => {
                    if a.optional && !mine.optional {
                        return Err(format!("attribute {} became required", a.name));
                    }
                }
            }
        }
        if other.text && !self.text {
            return Err("text lost".into());
        }
        for c in &other.children {
            match self.child(&c.name) {
                None => return Err(format!("child {} lost", c.name)),
                Some(mine) => {
                    if c.optional && !mine.optional {
                        return Err(format!("child {} became required", c.name));
                    }
                    if c.multiple && !mine.multiple {
                        return Err(format!("child {} became single", c.name));
                    }
                    mine.node
                        .admits(&c.node)
                        .map_err(|e| format!("{}/{}", c.name, e))?;
                }
            }
        }
        Ok(())
    }
}

/// schema of one position given all its occurrences in first-appearance order
pub fn infer(occs: &[&Node]) -> SNode {
    let mut out = SNode::default();
    let n = occs.len();
    // attributes
    let mut names: Vec<&str> = Vec::new();
    for o in occs {
        for (k, _) in &o.attrs {
            if !names.contains(&k.as_str()) {
                names.push(k);
            }
        }
    }
    for name in names {
        let present = occs
            .iter()
            .filter(|o| o.attrs.iter().any(|(k, _)| k == name))
            .count();
        out.attrs.push(SAttr {
            name: name.to_string(),
            optional: present < n,
        });
    }
    out.text = occs.iter().any(|o| o.has_chardata());
    // children
    let mut cnames: Vec<&str> = Vec::new();
    for o in occs {
        for c in o.children() {
            if !cnames.contains(&c.name.as_str()) {
                cnames.push(&c.name);
            }
        }
    }
    for name in cnames {
        let mut containing = 0;
        let mut multiple = false;
        let mut child_occs: Vec<&Node> = Vec::new();
        for o in occs {
            let before = child_occs.len();
            child_occs.extend(o.children().filter(|c| c.name == name));
            let k = child_occs.len() - before;
            if k >= 1 {
                containing += 1;
            }
            if k > 1 {
                multiple = true;
            }
        }
        out.children.push(SChild {
            name: name.to_string(),
            optional: containing < n,
            multiple,
            node: infer(&child_occs),
        });
    }
    out
}

/// schema of a sequence of documents sharing a root name: the roots are the occurrences of the
/// root position. Documents without a root element contribute nothing
pub fn infer_docs(roots: &[&Node]) -> SNode {
    infer(roots)
}

/// join of two schemas of the same position, given how many of the two sides actually have the
/// position (used to cross-check `infer` against pairwise combination; see props::c06)
pub fn join(a: &SNode, b: &SNode) -> SNode {
    let mut out = SNode {
        text: a.text || b.text,
        ..Default::default()
    };
    for x in &a.attrs {
        let optional = match b.attr(&x.name) {
            Some(y) => x.optional || y.optional,
            None => true,
        };
        out.attrs.push(SAttr {
            name: x.name.clone(),
            optional,
        });
    }
    for y in &b.attrs {
        if a.attr(&y.name).is_none() {
            out.attrs.push(SAttr {
                name: y.name.clone(),
                optional: true,
            });
        }
    }
    for x in &a.children {
        match b.child(&x.name) {
            Some(y) => out.children.push(SChild {
                name: x.name.clone(),
                optional: x.optional || y.optional,
                multiple: x.multiple || y.multiple,
                node: join(&x.node, &y.node),
            }),
            None => out.children.push(SChild {
                optional: true,
                ..x.clone()
            }),
        }
    }
    for y in &b.children {
        if a.child(&y.name).is_none() {
            out.children.push(SChild {
                optional: true,
                ..y.clone()
            });
        }
    }
    out
}

#[cfg(test)]
mod tests {
    use super::*;
    use crate::dom::read_doc;

    fn schema(docs: &[&str]) -> SNode {
        let roots: Vec<Node> = docs
            .iter()
            .map(|d| read_doc(d).unwrap().root.unwrap())
            .collect();
        infer(&roots.iter().collect::<Vec<_>>())
    }

    #[test]
    fn basics() {
        let s = schema(&["<r><a x='1'/><a y='2'>t</a><b/></r>", "<r z=''><b/><b/></r>"]);
        assert_eq!(s.key(), "{@z? a?*{@x? @y? #text } b*{} }");
        let t = schema(&["<r><a><![CDATA[c]]></a></r>"]);
        assert!(t.child("a").unwrap().node.string_typed());
    }

    #[test]
    fn join_agrees_with_infer_on_examples() {
        let a = ["<r><a x='1'/><b/></r>"];
        let b = ["<r><a/><a>t</a><c/></r>"];
        let both = schema(&[a[0], b[0]]);
        assert_eq!(join(&schema(&a), &schema(&b)).sorted(), both.sorted());
    }
}
