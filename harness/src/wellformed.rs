//! C04's oracle: the rendered source is a well-formed sequence of Rust structs with unique, legal
//! names. Rules are evaluated on the line-grammar view, identifier legality is decided by syn, and
//! the whole text must also parse with syn and give the same view.

use crate::rsast::{cross_check, parse_rendered, resolve, syn_view, RStruct, RTree};

#[derive(Clone, Debug, PartialEq, Eq)]
pub enum Issue {
    Unreadable(String),
    StructNameIllegal { name: String, why: String },
    StructShadowsStd { name: String },
    StructDuplicate { name: String, idxs: Vec<usize> },
    FieldIllegal { strukt: String, ident: String, why: String },
    FieldDuplicate { strukt: String, ident: String },
    Usage(String),
    SynRejects(String),
    ViewsDisagree(String),
}

impl Issue {
    pub fn kind(&self) -> &'static str {
        match self {
            Issue::Unreadable(_) => "unreadable",
            Issue::StructNameIllegal { .. } => "struct-name-illegal",
            Issue::StructShadowsStd { .. } => "struct-shadows-std",
            Issue::StructDuplicate { .. } => "struct-duplicate",
            Issue::FieldIllegal { .. } => "field-name-illegal",
            Issue::FieldDuplicate { .. } => "field-duplicate",
            Issue::Usage(_) => "struct-usage",
            Issue::SynRejects(_) => "syn-rejects",
            Issue::ViewsDisagree(_) => "views-disagree",
        }
    }
    pub fn message(&self) -> String {
        match self {
            Issue::Unreadable(m) => format!("output is not in the renderer's line grammar: {}", m),
            Issue::StructNameIllegal { name, why } => format!("struct name `{}` is not a legal type identifier: {}", name, why),
            Issue::StructShadowsStd { name } => format!("struct `{}` shadows the std type used by the fields", name),
            Issue::StructDuplicate { name, idxs } => format!("struct `{}` is defined {} times", name, idxs.len()),
            Issue::FieldIllegal { strukt, ident, why } => format!("field `{}` of struct {} is not a legal identifier: {}", ident, strukt, why),
            Issue::FieldDuplicate { strukt, ident } => format!("field `{}` occurs twice in struct {}", ident, strukt),
            Issue::Usage(m) => format!("struct usage: {}", m),
            Issue::SynRejects(m) => format!("not valid Rust: {}", m),
            Issue::ViewsDisagree(m) => format!("line grammar and syn disagree: {}", m),
        }
    }
}

pub fn legal_ident(s: &str) -> Result<(), String> {
    if s.is_empty() {
        return Err("empty".into());
    }
    match syn::parse_str::<syn::Ident>(s) {
        Ok(_) => Ok(()),
        Err(e) => Err(e.to_string()),
    }
}

pub struct Checked {
    pub issues: Vec<Issue>,
    pub structs: Vec<RStruct>,
    pub tree: Option<RTree>,
}

pub fn check_wellformed(src: &str) -> Checked {
    let mut issues = Vec::new();
    // the line grammar is lenient about identifiers (it reads `struct Self`), syn is lenient about
    // layout: a text is unreadable only if neither reads it
    let line_view = parse_rendered(src);
    let structs = match &line_view {
        Ok(s) => s.clone(),
        Err(e) => match syn_view(src) {
            Ok(s) => s,
            Err(e2) => {
                return Checked {
                    issues: vec![Issue::Unreadable(format!("{}; {}", e, e2))],
                    structs: Vec::new(),
                    tree: None,
                }
            }
        },
    };
    for (i, s) in structs.iter().enumerate() {
        if let Err(why) = legal_ident(&s.name) {
            issues.push(Issue::StructNameIllegal {
                name: s.name.clone(),
                why,
            });
        } else if ["String", "Option", "Vec"].contains(&s.name.as_str()) {
            issues.push(Issue::StructShadowsStd { name: s.name.clone() });
        }
        let idxs: Vec<usize> = structs
            .iter()
            .enumerate()
            .filter(|(_, t)| t.name == s.name)
            .map(|(j, _)| j)
            .collect();
        if idxs.len() > 1 && idxs[0] == i {
            issues.push(Issue::StructDuplicate {
                name: s.name.clone(),
                idxs,
            });
        }
        for (fi, f) in s.fields.iter().enumerate() {
            if let Err(why) = legal_ident(&f.ident) {
                issues.push(Issue::FieldIllegal {
                    strukt: s.name.clone(),
                    ident: f.ident.clone(),
                    why,
                });
            }
            if s.fields.iter().take(fi).any(|g| g.ident == f.ident) {
                issues.push(Issue::FieldDuplicate {
                    strukt: s.name.clone(),
                    ident: f.ident.clone(),
                });
            }
        }
    }
    let tree = match resolve(&structs) {
        Ok(t) => Some(t),
        Err(e) => {
            // an unresolvable tree that is explained by an issue above is not reported twice
            if issues.is_empty() {
                issues.push(Issue::Usage(e));
            }
            None
        }
    };
    match syn_view(src) {
        Ok(sv) => {
            if line_view.is_ok() {
                if let Err(e) = cross_check(&structs, &sv) {
                    issues.push(Issue::ViewsDisagree(e));
                }
            }
        }
        Err(e) => {
            if issues.is_empty() {
                issues.push(Issue::SynRejects(e));
            }
        }
    }
    Checked {
        issues,
        structs,
        tree,
    }
}

#[cfg(test)]
mod tests {
    use super::*;

    #[test]
    fn accepts_ordinary_output_and_flags_the_classics() {
        let ok = "pub struct A {\n    pub b: AB,\n}\n\npub struct AB {\n}\n\n";
        assert!(check_wellformed(ok).issues.is_empty());
        let dup = "pub struct A {\n    pub b: B,\n    pub c: B,\n}\n\npub struct B {\n}\n\npub struct B {\n}\n\n";
        assert_eq!(check_wellformed(dup).issues[0].kind(), "struct-duplicate");
        let slf = "pub struct Self {\n}\n\n";
        assert_eq!(check_wellformed(slf).issues[0].kind(), "struct-name-illegal");
        let kw = "pub struct A {\n    pub type: String,\n}\n\n";
        assert_eq!(check_wellformed(kw).issues[0].kind(), "field-name-illegal");
        let twice = "pub struct A {\n    pub b: String,\n    pub b: String,\n}\n\n";
        assert_eq!(check_wellformed(twice).issues[0].kind(), "field-duplicate");
    }
}
