//! Oracles that relate a rendering (read by `rsast`) to documents (soundness, C01) and to the
//! reference schema (exactness C03, order C09).

use crate::dom::{local_name, Node};
use crate::refmodel::SNode;
use crate::rsast::{RField, RStruct, RTree};

#[derive(Clone, Debug)]
pub struct Binding {
    pub attribute_prefix: String,
    pub text_identifier: String,
}

impl Binding {
    pub fn quick_xml() -> Binding {
        Binding {
            attribute_prefix: "@".into(),
            text_identifier: "$text".into(),
        }
    }
    pub fn serde_xml_rs() -> Binding {
        Binding {
            attribute_prefix: "".into(),
            text_identifier: "$text".into(),
        }
    }
    pub fn attr_bound(&self, name: &str) -> String {
        if name.starts_with("xmlns:") {
            format!("{}{}", self.attribute_prefix, name)
        } else {
            format!("{}{}", self.attribute_prefix, local_name(name))
        }
    }
    pub fn child_bound(&self, name: &str) -> String {
        local_name(name).to_string()
    }
}

fn attr_like(f: &RField) -> bool {
    f.base == "String" && !f.vec
}

/// C01: the rendering describes the document rooted at `node`
pub fn check_sound(
    node: &Node,
    structs: &[RStruct],
    tree: &RTree,
    b: &Binding,
    path: &str,
) -> Result<(), (&'static str, String)> {
    let st = &structs[tree.idx];
    for (k, _) in &node.attrs {
        let want = b.attr_bound(k);
        if !st.fields.iter().any(|f| f.bound() == want && attr_like(f)) {
            return Err(("attribute-unbound", format!(
                "{}: attribute {} has no String field bound to `{}` in struct {}",
                path, k, want, st.name
            )));
        }
    }
    if node.has_chardata()
        && !st
            .fields
            .iter()
            .any(|f| f.bound() == b.text_identifier && attr_like(f))
    {
        return Err(("text-unbound", format!(
            "{}: character data but struct {} has no text field",
            path, st.name
        )));
    }
    let mut seen: Vec<&str> = Vec::new();
    for c in node.children() {
        if seen.contains(&c.name.as_str()) {
            continue;
        }
        seen.push(&c.name);
        let count = node.children().filter(|d| d.name == c.name).count();
        let want = b.child_bound(&c.name);
        // candidate fields bound to the child's name; one of them must describe all occurrences
        let mut last_err = ("child-unbound", format!(
            "{}: child {} has no field bound to `{}` in struct {}",
            path, c.name, want, st.name
        ));
        let mut ok = false;
        for (fi, f) in st.fields.iter().enumerate() {
            if f.bound() != want {
                continue;
            }
            if count > 1 && !f.vec {
                last_err = ("child-not-vec", format!(
                    "{}: child {} occurs {} times but field {}.{} is not a Vec",
                    path, c.name, count, st.name, f.ident
                ));
                continue;
            }
            let mut sub_ok = true;
            for occ in node.children().filter(|d| d.name == c.name) {
                let sub_path = format!("{}/{}", path, c.name);
                if f.base == "String" {
                    if !occ.attrs.is_empty() || occ.children().next().is_some() {
                        last_err = ("string-typed-has-structure", format!(
                            "{}: element is typed String by {}.{} but has attributes or children",
                            sub_path, st.name, f.ident
                        ));
                        sub_ok = false;
                        break;
                    }
                } else {
                    match tree.kids.iter().find(|(i, _)| *i == fi) {
                        Some((_, sub)) => {
                            if let Err(e) = check_sound(occ, structs, sub, b, &sub_path) {
                                last_err = e;
                                sub_ok = false;
                                break;
                            }
                        }
                        None => {
                            last_err = ("unresolved", format!("{}: unresolved struct type {}", sub_path, f.base));
                            sub_ok = false;
                            break;
                        }
                    }
                }
            }
            if sub_ok {
                ok = true;
                break;
            }
        }
        if !ok {
            return Err(last_err);
        }
    }
    // every field not wrapped in Option is present in this occurrence
    for f in &st.fields {
        if f.opt {
            continue;
        }
        let as_attr = attr_like(f) && node.attrs.iter().any(|(k, _)| b.attr_bound(k) == f.bound());
        let as_child = node.children().any(|c| b.child_bound(&c.name) == f.bound());
        if !as_attr && !as_child {
            return Err(("required-field-absent", format!(
                "{}: required field {}.{} (bound to `{}`) is absent from this occurrence",
                path,
                st.name,
                f.ident,
                f.bound()
            )));
        }
    }
    Ok(())
}

#[derive(Clone, Debug, PartialEq, Eq, PartialOrd, Ord)]
struct FieldSig {
    bound: String,
    opt: bool,
    vec: bool,
    string: bool,
}

#[derive(Clone, Copy, Debug, PartialEq, Eq)]
pub enum Order {
    /// compare field sets only
    Ignore,
    /// first-appearance order (the `Unsorted` option)
    Document,
    /// ascending XML name (the `XmlName` option)
    XmlName,
}

/// C03 / C09: the rendering is exactly the schema `expect` (and, unless `Order::Ignore`, in the
/// expected order, with struct definitions in pre-order)
pub fn check_exact(
    expect: &SNode,
    structs: &[RStruct],
    tree: &RTree,
    b: &Binding,
    order: Order,
    path: &str,
) -> Result<(), String> {
    let st = &structs[tree.idx];
    let mut attrs: Vec<&crate::refmodel::SAttr> = expect.attrs.iter().collect();
    let mut kids: Vec<&crate::refmodel::SChild> = expect.children.iter().collect();
    if order == Order::XmlName {
        attrs.sort_by(|x, y| x.name.cmp(&y.name));
        kids.sort_by(|x, y| x.name.cmp(&y.name));
    }
    let mut want: Vec<FieldSig> = Vec::new();
    for a in &attrs {
        want.push(FieldSig {
            bound: b.attr_bound(&a.name),
            opt: a.optional,
            vec: false,
            string: true,
        });
    }
    if expect.text {
        want.push(FieldSig {
            bound: b.text_identifier.clone(),
            opt: true,
            vec: false,
            string: true,
        });
    }
    let first_child = want.len();
    for c in &kids {
        want.push(FieldSig {
            bound: b.child_bound(&c.name),
            opt: c.optional,
            vec: c.multiple,
            string: c.node.string_typed(),
        });
    }
    let got: Vec<FieldSig> = st
        .fields
        .iter()
        .map(|f| FieldSig {
            bound: f.bound().to_string(),
            opt: f.opt,
            vec: f.vec,
            string: f.base == "String",
        })
        .collect();
    let describe = |v: &[FieldSig]| {
        v.iter()
            .map(|f| {
                format!(
                    "{}:{}{}{}",
                    f.bound,
                    if f.opt { "Option " } else { "" },
                    if f.vec { "Vec " } else { "" },
                    if f.string { "String" } else { "struct" }
                )
            })
            .collect::<Vec<_>>()
            .join(", ")
    };
    if order == Order::Ignore {
        let mut w = want.clone();
        let mut g = got.clone();
        w.sort();
        g.sort();
        if w != g {
            return Err(format!(
                "{}: struct {} has fields [{}] but the documents define [{}]",
                path,
                st.name,
                describe(&got),
                describe(&want)
            ));
        }
    } else if want != got {
        let mut w = want.clone();
        let mut g = got.clone();
        w.sort();
        g.sort();
        let kind = if w == g { "order" } else { "fields" };
        return Err(format!(
            "{}: {} of struct {} are [{}] but expected [{}]",
            path,
            kind,
            st.name,
            describe(&got),
            describe(&want)
        ));
    }
    // recurse: pair every struct-typed expected child with the field bound to it. When several
    // fields are bound to the same name (ns:a next to a), any pairing that works is accepted
    let mut used: Vec<usize> = Vec::new();
    for (ci, c) in kids.iter().enumerate() {
        if c.node.string_typed() {
            continue;
        }
        let bound = b.child_bound(&c.name);
        let candidates: Vec<usize> = if order == Order::Ignore {
            st.fields
                .iter()
                .enumerate()
                .filter(|(fi, f)| f.bound() == bound && f.base != "String" && !used.contains(fi))
                .map(|(fi, _)| fi)
                .collect()
        } else {
            vec![first_child + ci]
        };
        let mut last_err = format!("{}: no struct found for child {} of struct {}", path, c.name, st.name);
        let mut ok = false;
        for fi in candidates {
            match tree.kids.iter().find(|(i, _)| *i == fi) {
                Some((_, sub)) => match check_exact(&c.node, structs, sub, b, order, &format!("{}/{}", path, c.name)) {
                    Ok(()) => {
                        used.push(fi);
                        ok = true;
                        break;
                    }
                    Err(e) => last_err = e,
                },
                None => {}
            }
        }
        if !ok {
            return Err(last_err);
        }
    }
    Ok(())
}

/// struct definitions follow the pre-order walk of the struct-typed fields in field order
pub fn check_preorder(tree: &RTree) -> Result<(), String> {
    fn walk(t: &RTree, next: &mut usize) -> Result<(), String> {
        if t.idx != *next {
            return Err(format!(
                "struct definitions are not in pre-order: definition #{} where #{} was expected",
                t.idx, *next
            ));
        }
        *next += 1;
        let mut kids: Vec<&(usize, RTree)> = t.kids.iter().collect();
        kids.sort_by_key(|(fi, _)| *fi);
        for (_, k) in kids {
            walk(k, next)?;
        }
        Ok(())
    }
    let mut next = 0;
    walk(tree, &mut next)
}

#[cfg(test)]
mod tests {
    use super::*;
    use crate::dom::read_doc;
    use crate::refmodel::infer;
    use crate::rsast::{parse_rendered, resolve};

    const SRC: &str = "pub struct R {\n    #[serde(rename = \"@x\")]\n    pub x: Option<String>,\n    #[serde(rename = \"$text\")]\n    pub text: Option<String>,\n    pub a: Vec<A>,\n    pub b: Option<String>,\n}\n\npub struct A {\n    #[serde(rename = \"@y\")]\n    pub y: String,\n}\n\n";

    fn root(x: &str) -> crate::dom::Node {
        read_doc(x).unwrap().root.unwrap()
    }

    #[test]
    fn soundness_accepts_and_rejects() {
        let s = parse_rendered(SRC).unwrap();
        let t = resolve(&s).unwrap();
        let b = Binding::quick_xml();
        let ok = ["<r><a y='1'/></r>", "<r x='1'>t<a y='1'/><a y='2'/><b>t</b></r>", "<r><a y='1'/><b/></r>"];
        for d in ok {
            assert!(check_sound(&root(d), &s, &t, &b, "").is_ok(), "{}", d);
        }
        let bad = [
            ("<r/>", "required-field-absent"),
            ("<r z='1'><a y='1'/></r>", "attribute-unbound"),
            ("<r><a y='1'/><c/></r>", "child-unbound"),
            ("<r><a y='1'/><b/><b/></r>", "child-not-vec"),
            ("<r><a y='1'>t</a></r>", "text-unbound"),
            ("<r><a y='1'/><b q='1'/></r>", "string-typed-has-structure"),
            ("<r><a/></r>", "required-field-absent"),
        ];
        for (d, class) in bad {
            assert_eq!(check_sound(&root(d), &s, &t, &b, "").unwrap_err().0, class, "{}", d);
        }
    }

    #[test]
    fn exactness_and_order() {
        let s = parse_rendered(SRC).unwrap();
        let t = resolve(&s).unwrap();
        let b = Binding::quick_xml();
        let docs = [root("<r x='1'>t<a y='1'/><a y='2'/><b>t</b></r>"), root("<r><a y='3'/></r>")];
        let e = infer(&docs.iter().collect::<Vec<_>>());
        assert!(check_exact(&e, &s, &t, &b, Order::Document, "").is_ok());
        assert!(check_exact(&e, &s, &t, &b, Order::XmlName, "").is_ok());
        assert!(check_preorder(&t).is_ok());
        // b before a in the document: same set, different order
        let docs2 = [root("<r x='1'>t<b>t</b><a y='1'/><a y='2'/></r>"), root("<r><a y='3'/></r>")];
        let e2 = infer(&docs2.iter().collect::<Vec<_>>());
        assert!(check_exact(&e2, &s, &t, &b, Order::Ignore, "").is_ok());
        assert!(check_exact(&e2, &s, &t, &b, Order::Document, "").is_err());
        // a not repeated: Vec is spurious
        let docs3 = [root("<r x='1'>t<a y='1'/><b>t</b></r>"), root("<r><a y='3'/></r>")];
        let e3 = infer(&docs3.iter().collect::<Vec<_>>());
        assert!(check_exact(&e3, &s, &t, &b, Order::Ignore, "").is_err());
    }
}
