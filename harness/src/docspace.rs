//! Index-addressable document spaces: *all* documents up to a weight and depth over small
//! alphabets, with `len()` / `get(i)` (count / unrank) so that workers can take disjoint index
//! ranges without materialising the space. Documents are ordered by weight (simplest first).

use crate::dom::{Doc, Item, Node};

#[derive(Clone, Copy, Debug, PartialEq, Eq)]
pub enum Kind {
    Text,
    Ws,
    CData,
    Comment,
    PI,
    /// text that consists of a reference to an entity declared in the DOCTYPE (`&e;`)
    Ent,
    /// an empty CDATA section `<![CDATA[]]>` (a CDATA node without content)
    CDataEmpty,
}

impl Kind {
    fn textlike(self) -> bool {
        matches!(self, Kind::Text | Kind::Ws | Kind::Ent)
    }
    fn item(self) -> Item {
        match self {
            Kind::Text => Item::Text("t".into()),
            Kind::Ws => Item::Text(" ".into()),
            Kind::CData => Item::CData("c".into()),
            Kind::Comment => Item::Comment("k".into()),
            Kind::PI => Item::PI("p q".into()),
            Kind::Ent => Item::Text("&e;".into()),
            Kind::CDataEmpty => Item::CData(String::new()),
        }
    }
}

#[derive(Clone, Debug)]
pub struct SpaceCfg {
    pub root: String,
    pub enames: Vec<String>,
    pub anames: Vec<String>,
    /// attributes of an element: every duplicate-free *sequence* (true) or every subset in fixed order (false)
    pub attr_seq: bool,
    pub max_attrs: usize,
    /// maximal element nesting, the root counts as 1
    pub depth: usize,
    pub kinds: Vec<Kind>,
    /// an element without items exists as `<x></x>` and as `<x/>`
    pub both_empty: bool,
    pub root_attrs: bool,
    pub max_weight: usize,
}

impl SpaceCfg {
    pub fn plain(max_weight: usize) -> SpaceCfg {
        SpaceCfg {
            root: "r".into(),
            enames: vec!["a".into(), "b".into()],
            anames: vec!["x".into(), "y".into()],
            attr_seq: false,
            max_attrs: 2,
            depth: 3,
            kinds: vec![Kind::Text, Kind::CData],
            both_empty: true,
            root_attrs: true,
            max_weight,
        }
    }

    pub fn describe(&self) -> String {
        format!(
            "root={} elements={:?} attributes={:?}({},<={}) depth<={} items={:?} both_empty_forms={} root_attrs={} weight<={}",
            self.root,
            self.enames,
            self.anames,
            if self.attr_seq { "sequences" } else { "subsets" },
            self.max_attrs,
            self.depth,
            self.kinds,
            self.both_empty,
            self.root_attrs,
            self.max_weight
        )
    }
}

pub struct Space {
    pub cfg: SpaceCfg,
    attr_choices: Vec<Vec<Vec<usize>>>,
    /// seq[d][w][p]
    seq: Vec<Vec<[u64; 2]>>,
    /// node[d][w], d >= 1
    node: Vec<Vec<u64>>,
    root_w: Vec<u64>,
    cum: Vec<u64>,
}

fn combos(n: usize, k: usize) -> Vec<Vec<usize>> {
    fn rec(start: usize, n: usize, k: usize, cur: &mut Vec<usize>, out: &mut Vec<Vec<usize>>) {
        if cur.len() == k {
            out.push(cur.clone());
            return;
        }
        for i in start..n {
            cur.push(i);
            rec(i + 1, n, k, cur, out);
            cur.pop();
        }
    }
    let mut out = Vec::new();
    rec(0, n, k, &mut Vec::new(), &mut out);
    out
}

pub fn permutations(items: &[usize]) -> Vec<Vec<usize>> {
    if items.len() <= 1 {
        return vec![items.to_vec()];
    }
    let mut out = Vec::new();
    for i in 0..items.len() {
        let mut rest = items.to_vec();
        let x = rest.remove(i);
        for mut p in permutations(&rest) {
            p.insert(0, x);
            out.push(p);
        }
    }
    out
}

impl Space {
    pub fn new(cfg: SpaceCfg) -> Space {
        let w_max = cfg.max_weight;
        let d_max = cfg.depth.max(1) - 1; // depth budget below the root
        let mut attr_choices = Vec::new();
        for k in 0..=cfg.max_attrs.min(cfg.anames.len()) {
            let mut v = Vec::new();
            for c in combos(cfg.anames.len(), k) {
                if cfg.attr_seq {
                    v.extend(permutations(&c));
                } else {
                    v.push(c);
                }
            }
            attr_choices.push(v);
        }
        let mut sp = Space {
            cfg,
            attr_choices,
            seq: Vec::new(),
            node: vec![Vec::new()],
            root_w: Vec::new(),
            cum: Vec::new(),
        };
        for d in 0..=d_max {
            if d >= 1 {
                // node[d] from seq[d-1]
                let mut nd = vec![0u64; w_max + 1];
                for (w, slot) in nd.iter_mut().enumerate().skip(1) {
                    let mut total = 0u64;
                    for k in 0..sp.attr_choices.len() {
                        if k + 1 > w {
                            break;
                        }
                        total += sp.attr_choices[k].len() as u64 * sp.content(d - 1, w - 1 - k);
                    }
                    *slot = total * sp.cfg.enames.len() as u64;
                }
                sp.node.push(nd);
            }
            let mut sq = vec![[0u64; 2]; w_max + 1];
            sq[0] = [1, 1];
            // seq[d][w] depends on seq[d][<w] and node[d][<=w]
            for w in 1..=w_max {
                for p in 0..2 {
                    let mut total = 0u64;
                    for kind in sp.cfg.kinds.iter() {
                        if kind.textlike() {
                            if p == 0 {
                                total += sq[w - 1][1];
                            }
                        } else {
                            total += sq[w - 1][0];
                        }
                    }
                    if d >= 1 {
                        for cw in 1..=w {
                            total += sp.node[d][cw] * sq[w - cw][0];
                        }
                    }
                    sq[w][p] = total;
                }
            }
            sp.seq.push(sq);
        }
        let mut root_w = vec![0u64; w_max + 1];
        for (w, slot) in root_w.iter_mut().enumerate() {
            let kmax = if sp.cfg.root_attrs {
                sp.attr_choices.len()
            } else {
                1
            };
            for k in 0..kmax {
                if k > w {
                    break;
                }
                *slot += sp.attr_choices[k].len() as u64 * sp.content(d_max, w - k);
            }
        }
        let mut cum = Vec::new();
        let mut acc = 0u64;
        for w in 0..=w_max {
            cum.push(acc);
            acc += root_w[w];
        }
        cum.push(acc);
        sp.root_w = root_w;
        sp.cum = cum;
        sp
    }

    fn content(&self, d: usize, r: usize) -> u64 {
        if r == 0 {
            if self.cfg.both_empty {
                2
            } else {
                1
            }
        } else {
            self.seq[d][r][0]
        }
    }

    pub fn len(&self) -> u64 {
        *self.cum.last().unwrap()
    }

    pub fn is_empty(&self) -> bool {
        self.len() == 0
    }

    /// number of documents of weight <= w
    pub fn len_upto(&self, w: usize) -> u64 {
        self.cum[(w + 1).min(self.cum.len() - 1)]
    }

    pub fn get(&self, index: u64) -> Node {
        assert!(index < self.len(), "document index out of range");
        let mut w = 0;
        while self.cum[w + 1] <= index {
            w += 1;
        }
        let mut idx = index - self.cum[w];
        let d_max = self.cfg.depth.max(1) - 1;
        let mut node = Node::new(&self.cfg.root);
        let kmax = if self.cfg.root_attrs {
            self.attr_choices.len()
        } else {
            1
        };
        for k in 0..kmax {
            if k > w {
                break;
            }
            let per = self.content(d_max, w - k);
            let c = self.attr_choices[k].len() as u64 * per;
            if idx < c {
                self.fill(&mut node, k, idx / per, d_max, w - k, idx % per);
                return node;
            }
            idx -= c;
        }
        unreachable!("unrank: root index beyond count");
    }

    fn fill(&self, node: &mut Node, k: usize, attr_idx: u64, d: usize, r: usize, cidx: u64) {
        for &a in &self.attr_choices[k][attr_idx as usize] {
            node.attrs.push((self.cfg.anames[a].clone(), "v".to_string()));
        }
        if r == 0 {
            node.self_closing = cidx == 1;
        } else {
            self.unrank_seq(d, r, 0, cidx, &mut node.items);
        }
    }

    fn unrank_seq(&self, d: usize, w: usize, p: usize, mut idx: u64, out: &mut Vec<Item>) {
        if w == 0 {
            debug_assert!(idx == 0);
            return;
        }
        for kind in self.cfg.kinds.iter() {
            let (c, np) = if kind.textlike() {
                if p != 0 {
                    continue;
                }
                (self.seq[d][w - 1][1], 1)
            } else {
                (self.seq[d][w - 1][0], 0)
            };
            if idx < c {
                out.push(kind.item());
                return self.unrank_seq(d, w - 1, np, idx, out);
            }
            idx -= c;
        }
        if d >= 1 {
            for cw in 1..=w {
                let rest = self.seq[d][w - cw][0];
                let c = self.node[d][cw] * rest;
                if idx < c {
                    out.push(Item::Elem(self.unrank_node(d, cw, idx / rest)));
                    return self.unrank_seq(d, w - cw, 0, idx % rest, out);
                }
                idx -= c;
            }
        }
        unreachable!("unrank: sequence index beyond count");
    }

    fn unrank_node(&self, d: usize, w: usize, mut idx: u64) -> Node {
        let per_name = self.node[d][w] / self.cfg.enames.len() as u64;
        let mut node = Node::new(&self.cfg.enames[(idx / per_name) as usize]);
        idx %= per_name;
        for k in 0..self.attr_choices.len() {
            if k + 1 > w {
                break;
            }
            let per = self.content(d - 1, w - 1 - k);
            let c = self.attr_choices[k].len() as u64 * per;
            if idx < c {
                self.fill(&mut node, k, idx / per, d - 1, w - 1 - k, idx % per);
                return node;
            }
            idx -= c;
        }
        unreachable!("unrank: node index beyond count");
    }

    /// the document with index `index`; spaces with entity references get a DOCTYPE that declares the entity
    pub fn doc(&self, index: u64) -> Doc {
        let mut d = Doc::from_root(self.get(index));
        if self.cfg.kinds.contains(&Kind::Ent) {
            d.prolog.push(crate::dom::Misc::DocType(format!("{} [<!ENTITY e \"v\">]", self.cfg.root)));
        }
        d
    }
}

/// weight of a root element as defined for the spaces: non-root elements + attributes + non-element items
pub fn weight(root: &Node) -> usize {
    fn inner(n: &Node) -> usize {
        n.attrs.len()
            + n.items
                .iter()
                .map(|i| match i {
                    Item::Elem(c) => 1 + inner(c),
                    _ => 1,
                })
                .sum::<usize>()
    }
    inner(root)
}

/// give every attribute value and every text/CDATA item a distinct payload (`v<n>`, `t<n>`);
/// whitespace-only text, comments and PIs are left alone
pub fn decorate(root: &mut Node, counter: &mut usize) {
    for (_, v) in root.attrs.iter_mut() {
        *counter += 1;
        *v = match *counter % 4 {
            0 => format!("v{} &amp; w", counter),
            1 => format!(" v{} ", counter),
            _ => format!("v{}", counter),
        };
    }
    for item in root.items.iter_mut() {
        match item {
            Item::Elem(n) => decorate(n, counter),
            Item::Text(t) if !t.trim().is_empty() => {
                *counter += 1;
                *t = match *counter % 4 {
                    0 => format!("t{} &lt; u", counter),
                    1 => format!(" t{} ", counter),
                    _ => format!("t{}", counter),
                };
            }
            Item::CData(t) => {
                *counter += 1;
                *t = format!("c{}", counter);
            }
            _ => {}
        }
    }
}

#[cfg(test)]
mod tests {
    use super::*;
    use std::collections::HashSet;

    #[test]
    fn unrank_is_a_bijection_and_respects_bounds() {
        let mut cfg = SpaceCfg::plain(4);
        cfg.kinds = vec![Kind::Text, Kind::Ws, Kind::CData, Kind::Comment];
        let sp = Space::new(cfg);
        let mut seen = HashSet::new();
        let mut last_w = 0;
        for i in 0..sp.len() {
            let n = sp.get(i);
            let w = weight(&n);
            assert!(w >= last_w && w <= 4);
            last_w = w;
            assert!(n.depth() <= 3);
            let doc = Doc::from_root(n);
            let xml = doc.to_xml();
            assert_eq!(crate::dom::read_doc(&xml).unwrap(), doc, "{}", xml);
            assert!(seen.insert(xml));
        }
        assert_eq!(seen.len() as u64, sp.len());
    }

    #[test]
    fn sizes_match_design() {
        let a = Space::new(SpaceCfg::plain(3)).len();
        let b = Space::new(SpaceCfg::plain(4)).len();
        assert!(a < b && b == Space::new(SpaceCfg::plain(5)).len_upto(4));
    }
}
