//! Index-addressable spaces of raw inputs: byte strings, token strings, edit neighbourhoods.

pub trait InputSpace: Sync {
    fn len(&self) -> u64;
    fn get(&self, i: u64) -> Vec<u8>;
    fn describe(&self) -> String;
}

/// every string over `alphabet` of length 0..=max_len, shorter first
pub struct Bytes {
    pub alphabet: Vec<u8>,
    pub max_len: usize,
}

pub const BYTE_ALPHABET: &[u8] = b"<>/a =\"'!-?[]&:\xFF\xC3\xA9";
pub const BYTE_ALPHABET_THOROUGH: &[u8] = b"<>/a =\"'!-?[]&:\xFF\xC3\xA9_";

fn strings_len(base: u64, max_len: usize) -> u64 {
    let mut total = 0u64;
    let mut p = 1u64;
    for _ in 0..=max_len {
        total += p;
        p = p.saturating_mul(base);
    }
    total
}

fn strings_decode(base: u64, mut i: u64) -> Vec<usize> {
    let mut len = 0;
    let mut p = 1u64;
    while i >= p {
        i -= p;
        p *= base;
        len += 1;
    }
    let mut out = vec![0usize; len];
    for slot in out.iter_mut().rev() {
        *slot = (i % base) as usize;
        i /= base;
    }
    out
}

impl InputSpace for Bytes {
    fn len(&self) -> u64 {
        strings_len(self.alphabet.len() as u64, self.max_len)
    }
    fn get(&self, i: u64) -> Vec<u8> {
        strings_decode(self.alphabet.len() as u64, i)
            .into_iter()
            .map(|d| self.alphabet[d])
            .collect()
    }
    fn describe(&self) -> String {
        format!(
            "all byte strings of length <= {} over the {} bytes {:?}",
            self.max_len,
            self.alphabet.len(),
            String::from_utf8_lossy(&self.alphabet)
        )
    }
}

/// every sequence of 0..=max_len lexical tokens
pub struct Tokens {
    pub tokens: Vec<Vec<u8>>,
    pub max_len: usize,
}

pub fn xml_tokens() -> Vec<Vec<u8>> {
    let t: Vec<&[u8]> = vec![
        b"<a", b"<b", b"<p:a", b"</a>", b"</b>", b">", b"/>", b" x=\"1\"", b" y='2'", b" x=", b" x", b"\"", b"t", b" ",
        b"&amp;", b"&", b"<!--", b"-->", b"<![CDATA[", b"]]>", b"<?xml version=\"1.0\"?>", b"<?pi", b"?>",
        b"<!DOCTYPE a>", b"<!DOCTYPE a [<!ENTITY e \"v\">]>", b"\xFF", b"\xC3", b":",
        b"<_", b"</_>", b"<-.", b"<1a", b" _=\"\"",
        b"\xA9", b"<?xml version=\"1.0\" encoding=\"ISO-8859-1\"?>",
        b"</a >", b"<!DOCTYPE>", b"<!doctype  >",
    ];
    t.into_iter().map(|x| x.to_vec()).collect()
}

impl InputSpace for Tokens {
    fn len(&self) -> u64 {
        strings_len(self.tokens.len() as u64, self.max_len)
    }
    fn get(&self, i: u64) -> Vec<u8> {
        let mut out = Vec::new();
        for d in strings_decode(self.tokens.len() as u64, i) {
            out.extend_from_slice(&self.tokens[d]);
        }
        out
    }
    fn describe(&self) -> String {
        format!("all sequences of <= {} tokens out of {} lexical tokens", self.max_len, self.tokens.len())
    }
}

pub const EDIT_ALPHABET: &[u8] = b"<>/a =\"'&!\xFF:";

/// every truncation and every single-byte deletion / substitution / insertion of every base document
pub struct Edits {
    pub docs: Vec<Vec<u8>>,
    starts: Vec<u64>,
    total: u64,
    pub double: bool,
}

fn single_edit_count(len: usize) -> u64 {
    let a = EDIT_ALPHABET.len() as u64;
    let l = len as u64;
    // truncations (0..len, i.e. proper prefixes) + deletions + substitutions + insertions
    l + l + l * a + (l + 1) * a
}

fn apply_single(doc: &[u8], mut e: u64) -> Vec<u8> {
    let a = EDIT_ALPHABET.len() as u64;
    let l = doc.len() as u64;
    if e < l {
        return doc[..e as usize].to_vec();
    }
    e -= l;
    if e < l {
        let mut v = doc.to_vec();
        v.remove(e as usize);
        return v;
    }
    e -= l;
    if e < l * a {
        let mut v = doc.to_vec();
        v[(e / a) as usize] = EDIT_ALPHABET[(e % a) as usize];
        return v;
    }
    e -= l * a;
    let mut v = doc.to_vec();
    v.insert((e / a) as usize, EDIT_ALPHABET[(e % a) as usize]);
    v
}

impl Edits {
    pub fn new(docs: Vec<Vec<u8>>, double: bool) -> Edits {
        let mut starts = Vec::new();
        let mut total = 0u64;
        for d in &docs {
            starts.push(total);
            let c = single_edit_count(d.len());
            total += if double { c * single_edit_count(d.len() + 1) } else { c };
        }
        Edits { docs, starts, total, double }
    }
}

impl InputSpace for Edits {
    fn len(&self) -> u64 {
        self.total
    }
    fn get(&self, i: u64) -> Vec<u8> {
        let di = match self.starts.binary_search(&i) {
            Ok(p) => p,
            Err(p) => p - 1,
        };
        let doc = &self.docs[di];
        let e = i - self.starts[di];
        if self.double {
            // second edit drawn from the neighbourhood size of a document one byte longer, clamped
            let inner = single_edit_count(doc.len() + 1);
            let first = apply_single(doc, e / inner);
            let second = e % inner;
            let c = single_edit_count(first.len());
            if c == 0 {
                return first;
            }
            apply_single(&first, second % c)
        } else {
            apply_single(doc, e)
        }
    }
    fn describe(&self) -> String {
        format!(
            "every truncation and every single-byte deletion / substitution / insertion ({} byte alphabet){} at every offset of {} valid documents",
            EDIT_ALPHABET.len(),
            if self.double { ", two edits in sequence," } else { "" },
            self.docs.len()
        )
    }
}

#[cfg(test)]
mod tests {
    use super::*;

    #[test]
    fn bytes_enumeration() {
        let b = Bytes { alphabet: b"ab".to_vec(), max_len: 2 };
        let all: Vec<Vec<u8>> = (0..b.len()).map(|i| b.get(i)).collect();
        assert_eq!(all, vec![b"".to_vec(), b"a".to_vec(), b"b".to_vec(), b"aa".to_vec(), b"ab".to_vec(), b"ba".to_vec(), b"bb".to_vec()]);
    }

    #[test]
    fn edits_cover_the_neighbourhood() {
        let e = Edits::new(vec![b"<a/>".to_vec()], false);
        let all: std::collections::HashSet<Vec<u8>> = (0..e.len()).map(|i| e.get(i)).collect();
        assert!(all.contains(&b"<a/".to_vec()));
        assert!(all.contains(&b"<a>".to_vec()));
        assert!(all.contains(&b"<a//>".to_vec()));
        assert!(all.contains(&b"<\xFF/>".to_vec()));
        assert!(all.contains(&b"".to_vec()));
    }
}
