//! Thin wrappers around the library's public entry points (the subject under verification).

use quick_xml::reader::Reader;
use xml_schema_generator::{extend_struct, into_struct, Element, Options, ParserError, SortBy};

pub fn parse(xml: &[u8]) -> Result<Element<String>, ParserError> {
    let mut reader = Reader::from_reader(xml);
    into_struct(&mut reader)
}

pub fn extend(root: Element<String>, xml: &[u8]) -> Result<Element<String>, ParserError> {
    let mut reader = Reader::from_reader(xml);
    extend_struct(&mut reader, root)
}

/// parse the first document and extend with the others
pub fn parse_all<S: AsRef<[u8]>>(docs: &[S]) -> Result<Element<String>, ParserError> {
    let mut it = docs.iter();
    let first = it.next().expect("at least one document");
    let mut root = parse(first.as_ref())?;
    for d in it {
        root = extend(root, d.as_ref())?;
    }
    Ok(root)
}

#[derive(Clone, Copy, Debug, PartialEq, Eq)]
pub enum Preset {
    QuickXml,
    SerdeXmlRs,
}

pub fn options(preset: Preset, sorted: bool) -> Options {
    let mut o = match preset {
        Preset::QuickXml => Options::quick_xml_de(),
        Preset::SerdeXmlRs => Options::serde_xml_rs(),
    };
    o.sort = if sorted {
        SortBy::XmlName
    } else {
        SortBy::Unsorted
    };
    o
}

pub fn render(e: &Element<String>, preset: Preset, sorted: bool) -> String {
    e.to_serde_struct(&options(preset, sorted))
}

/// run `f`, turning a panic into `Err(message)`; the default panic hook must be silenced once per
/// process with `silence_panics`
pub fn guarded<T>(f: impl FnOnce() -> T) -> Result<T, String> {
    match std::panic::catch_unwind(std::panic::AssertUnwindSafe(f)) {
        Ok(v) => Ok(v),
        Err(p) => Err(if let Some(s) = p.downcast_ref::<&str>() {
            s.to_string()
        } else if let Some(s) = p.downcast_ref::<String>() {
            s.clone()
        } else {
            "panic with non-string payload".to_string()
        }),
    }
}

thread_local! {
    pub static LAST_PANIC_LOCATION: std::cell::RefCell<Option<String>> = const { std::cell::RefCell::new(None) };
}

pub fn silence_panics() {
    std::panic::set_hook(Box::new(|info| {
        let loc = info
            .location()
            .map(|l| format!("{}:{}", l.file(), l.line()));
        LAST_PANIC_LOCATION.with(|c| *c.borrow_mut() = loc);
    }));
}
