//! Thin wrappers around the library's public entry points (the subject under verification).

use quick_xml::reader::Reader;
use xml_schema_generator::{extend_struct, into_struct, Element, Options, ParserError, SortBy};

pub fn parse(xml: &[u8]) -> Result<Element<String>, ParserError> {
    let mut reader = Reader::from_reader(xml);
    into_struct(&mut reader)
}

pub fn extend(root: Element<String>, xml: &[u8]) -> Result<Element<String>, ParserError> {
    let mut reader = Reader::from_reader(xml);
    extend_struct(&mut reader, root)
}

/// parse the first document and extend with the others
pub fn parse_all<S: AsRef<[u8]>>(docs: &[S]) -> Result<Element<String>, ParserError> {
    let mut it = docs.iter();
    let first = it.next().expect("at least one document");
    let mut root = parse(first.as_ref())?;
    for d in it {
        root = extend(root, d.as_ref())?;
    }
    Ok(root)
}

#[derive(Clone, Copy, Debug, PartialEq, Eq)]
pub enum Preset {
    QuickXml,
    SerdeXmlRs,
}

pub fn options(preset: Preset, sorted: bool) -> Options {
    let mut o = match preset {
        Preset::QuickXml => Options::quick_xml_de(),
        Preset::SerdeXmlRs => Options::serde_xml_rs(),
    };
    o.sort = if sorted {
        SortBy::XmlName
    } else {
        SortBy::Unsorted
    };
    o
}

/// every other way a caller can arrive at the options `options(preset, sorted)`: the sort option set
/// before the `derive()` builder is applied, and all four fields written out
pub fn option_spellings(preset: Preset, sorted: bool) -> Vec<(&'static str, Options)> {
    let base = options(preset, sorted);
    let mut first_sort = match preset {
        Preset::QuickXml => Options::quick_xml_de(),
        Preset::SerdeXmlRs => Options::serde_xml_rs(),
    };
    first_sort.sort = if sorted { SortBy::XmlName } else { SortBy::Unsorted };
    let derive = first_sort.derive.clone();
    let via_builder = first_sort.derive(&derive);
    let literal = Options {
        text_identifier: base.text_identifier.clone(),
        attribute_prefix: base.attribute_prefix.clone(),
        derive: base.derive.clone(),
        sort: if sorted { SortBy::XmlName } else { SortBy::Unsorted },
    };
    vec![("sort set before the derive() builder", via_builder), ("all fields written out", literal)]
}

/// render under a preset. Called outside `guarded`, a panicking renderer yields the text
/// `PANIC(render): ...` (which no oracle accepts as output) instead of taking the check down
pub fn render(e: &Element<String>, preset: Preset, sorted: bool) -> String {
    if GUARD_DEPTH.with(|d| d.get()) > 0 {
        return e.to_serde_struct(&options(preset, sorted));
    }
    match guarded(|| e.to_serde_struct(&options(preset, sorted))) {
        Ok(t) => t,
        Err(p) => format!("PANIC(render): {}", p),
    }
}

thread_local! {
    static GUARD_DEPTH: std::cell::Cell<u32> = const { std::cell::Cell::new(0) };
}

/// run `f`, turning a panic into `Err(message)`; the default panic hook must be silenced once per
/// process with `silence_panics`
pub fn guarded<T>(f: impl FnOnce() -> T) -> Result<T, String> {
    GUARD_DEPTH.with(|d| d.set(d.get() + 1));
    let r = std::panic::catch_unwind(std::panic::AssertUnwindSafe(f));
    GUARD_DEPTH.with(|d| d.set(d.get().saturating_sub(1)));
    match r {
        Ok(v) => Ok(v),
        Err(p) => Err(if let Some(s) = p.downcast_ref::<&str>() {
            s.to_string()
        } else if let Some(s) = p.downcast_ref::<String>() {
            s.clone()
        } else {
            "panic with non-string payload".to_string()
        }),
    }
}

thread_local! {
    pub static LAST_PANIC_LOCATION: std::cell::RefCell<Option<String>> = const { std::cell::RefCell::new(None) };
}

pub fn silence_panics() {
    std::panic::set_hook(Box::new(|info| {
        let loc = info
            .location()
            .map(|l| format!("{}:{}", l.file(), l.line()));
        LAST_PANIC_LOCATION.with(|c| *c.borrow_mut() = loc);
    }));
}

/// the observation C05 compares: both renderings of a history, or the error
pub fn observe_history<S: AsRef<[u8]>>(docs: &[S]) -> String {
    match guarded(|| parse_all(docs)) {
        Ok(Ok(e)) => observe_element(&e),
        Ok(Err(e)) => format!("ERR: {}", e),
        Err(p) => format!("PANIC(parse): {}", p),
    }
}

fn observe_element(e: &Element<String>) -> String {
    match guarded(|| {
        let mut o = render(e, Preset::QuickXml, false);
        o.push('\u{1}');
        o.push_str(&render(e, Preset::QuickXml, true));
        o.push('\u{1}');
        o.push_str(&render(e, Preset::SerdeXmlRs, false));
        o.push('\u{1}');
        o.push_str(&e.to_serde_struct(&Options::quick_xml_de().derive("Debug, Clone, Debug, PartialEq, Clone")));
        // public accessors used after the last rendering, right before the tree is dropped:
        // whatever they leave behind must not influence the next call
        fn touch(e: &Element<String>) -> usize {
            let mut n = e.formatted_name().len();
            for c in e.children() {
                n += touch(c.inner_t());
            }
            n
        }
        let _ = touch(e);
        o
    }) {
        Ok(o) => o,
        Err(p) => format!("PANIC(render): {}", p),
    }
}

/// the same history, built step by step while copies of every intermediate value are kept alive and
/// rendered in an adverse order (`copies_first`: a copy is rendered right after the value it was
/// taken from was extended, before that value itself is ever rendered). Returns one observation
/// per prefix of the history: entry k must equal `observe_history(&docs[..=k])`
pub fn observe_prefixes_with_copies<S: AsRef<[u8]>>(docs: &[S], copies_first: bool) -> Vec<String> {
    let mut out = Vec::new();
    let first = match guarded(|| parse(docs[0].as_ref())) {
        Ok(Ok(e)) => e,
        Ok(Err(e)) => return vec![format!("ERR: {}", e)],
        Err(p) => return vec![format!("PANIC(parse): {}", p)],
    };
    let mut kept: Vec<Element<String>> = Vec::new();
    let mut cur = first;
    for d in &docs[1..] {
        let copy = cur.clone();
        if !copies_first {
            let _ = guarded(|| render_all(&copy));
        }
        cur = match guarded(|| extend(cur, d.as_ref())) {
            Ok(Ok(e)) => e,
            Ok(Err(e)) => {
                out.push(format!("ERR: {}", e));
                return out;
            }
            Err(p) => {
                out.push(format!("PANIC(parse): {}", p));
                return out;
            }
        };
        if copies_first {
            let _ = guarded(|| render_all(&copy));
        } else {
            let _ = guarded(|| render_all(&cur));
        }
        kept.push(copy);
    }
    if !copies_first {
        // the final value first, then the copies from the newest to the oldest
        let last = observe_element(&cur);
        let mut rest: Vec<String> = kept.iter().rev().map(observe_element).collect();
        rest.reverse();
        out = rest;
        out.push(last);
    } else {
        out = kept.iter().map(observe_element).collect();
        out.push(observe_element(&cur));
    }
    out
}

/// unrelated library calls (accepted and rejected inputs) used to disturb any state kept between calls
pub fn noise() {
    noise_rounds(6)
}

/// a short version of `noise` (one round), used where it is called several times per case
pub fn noise_light() {
    noise_rounds(1)
}

fn noise_rounds(rounds: usize) {
    let deep_open: String = (0..12).map(|i| format!("<n{}>", i)).collect();
    let deep: String = format!("{}{}", deep_open, (0..12).rev().map(|i| format!("</n{}>", i)).collect::<String>());
    let inputs: Vec<String> = vec![
        "<q><w e=\"1\"/><w/><z>t</z></q>".to_string(),
        deep.clone(),
        format!("{}</wrong>", deep_open),
        "<q><w></q>".to_string(),
        "<q e=\"1\" e=\"2\"/>".to_string(),
        "<r><Foo/><foo/><p><Foo/></p></r>".to_string(),
        "".to_string(),
    ];
    let odd = Options {
        text_identifier: "$value".to_string(),
        attribute_prefix: "x".to_string(),
        derive: "Zeta, Alpha".to_string(),
        sort: SortBy::XmlName,
    };
    for round in 0..rounds {
        for x in &inputs {
            if let Ok(Ok(e)) = guarded(|| parse(x.as_bytes())) {
                // public accessors used without rendering, renderings with unusual options
                let _ = guarded(|| {
                    let mut names = vec![e.formatted_name()];
                    for c in e.children() {
                        names.push(c.inner_t().formatted_name());
                    }
                    names
                });
                if round % 2 == 0 {
                    let _ = guarded(|| e.to_serde_struct(&odd));
                }
                let _ = guarded(|| render_all(&e));
                // ... and once more after the last rendering, right before the tree is dropped
                let _ = guarded(|| {
                    let mut names = vec![e.formatted_name()];
                    for c in e.children() {
                        names.push(c.inner_t().formatted_name());
                    }
                    names
                });
            }
        }
    }
    let text_first = "<q>text</q>";
    if let Ok(Ok(e)) = guarded(|| parse(text_first.as_bytes())) {
        let _ = guarded(|| e.to_serde_struct(&odd));
    }
}

/// free-running repetition of one history on the library as built (used by the hooks-off helper):
/// `in_thread` runs on the calling thread, then one run in each of `fresh_threads` new threads
/// (every new thread gets fresh SipHash keys). Returns the distinct observations
pub fn repeat_history(docs: &[String], in_thread: usize, fresh_threads: usize) -> Vec<String> {
    repeat_history_opt(docs, in_thread, fresh_threads)
}

/// `repeat_history`; the process-level variant that starts with `noise()` is selected in main
pub fn repeat_history_opt(docs: &[String], in_thread: usize, fresh_threads: usize) -> Vec<String> {
    let mut outs: Vec<String> = Vec::new();
    let mut push = |o: String| {
        if !outs.contains(&o) {
            outs.push(o);
        }
    };
    for i in 0..in_thread {
        if i == 1 {
            // between two repetitions: unrelated work on the same thread (other documents, rejected
            // documents, deep documents, renderings) - the result must not depend on what the
            // process did before
            noise();
        }
        push(observe_history(docs));
    }
    if in_thread > 0 && !docs.is_empty() {
        // copies of intermediate values kept alive and rendered while the history is built
        for copies_first in [true, false] {
            let obs = observe_prefixes_with_copies(docs, copies_first);
            for (k, o) in obs.iter().enumerate() {
                if k + 1 == docs.len() {
                    push(o.clone());
                } else if !o.starts_with("ERR") && !o.starts_with("PANIC") {
                    let fresh = observe_history(&docs[..=k]);
                    if *o != fresh {
                        push(format!("[a copy of the value after {} of {} documents, kept while the value was extended, renders differently from a fresh run over these documents]\n{}", k + 1, docs.len(), o));
                    }
                }
            }
        }
    }
    if in_thread > 0 && docs.len() >= 2 {
        // the history split over threads: every document is parsed / extended on a thread of its own
        // (one that did unrelated work first, then one that did not), the value handed from one to the next
        for warm_first in [true, false] {
            let mut cur: Option<Element<String>> = None;
            let mut failed: Option<String> = None;
            for (k, d) in docs.iter().enumerate() {
                let d = d.clone();
                let prev = cur.take();
                let warm = warm_first == (k % 2 == 0);
                let r = std::thread::spawn(move || {
                    if warm {
                        noise_light();
                    }
                    guarded(|| match prev {
                        None => parse(d.as_bytes()),
                        Some(e) => extend(e, d.as_bytes()),
                    })
                })
                .join();
                match r {
                    Ok(Ok(Ok(e))) => cur = Some(e),
                    Ok(Ok(Err(e))) => {
                        failed = Some(format!("ERR: {}", e));
                        break;
                    }
                    Ok(Err(p)) => {
                        failed = Some(format!("PANIC(parse): {}", p));
                        break;
                    }
                    Err(_) => {
                        failed = Some("PANIC(thread)".to_string());
                        break;
                    }
                }
            }
            match (failed, cur) {
                (Some(f), _) => push(f),
                (None, Some(e)) => push(observe_element(&e)),
                _ => {}
            }
        }
    }
    for _ in 0..fresh_threads {
        let d = docs.to_vec();
        let o = std::thread::spawn(move || observe_history(&d))
            .join()
            .unwrap_or_else(|_| "PANIC(thread)".to_string());
        push(o);
    }
    outs
}

// ---------------------------------------------------------------------------------------------
// configurable readers (C07, C08, C11)
// ---------------------------------------------------------------------------------------------

#[derive(Clone, Copy, Debug, PartialEq, Eq, Default)]
pub struct RCfg {
    pub trim_text: bool,
    pub expand_empty_elements: bool,
    /// `None` = library default (true)
    pub check_end_names: Option<bool>,
    pub allow_unmatched_ends: bool,
    pub check_comments: bool,
}

impl RCfg {
    pub fn apply<R>(&self, r: &mut Reader<R>) {
        let c = r.config_mut();
        c.trim_text(self.trim_text);
        c.expand_empty_elements = self.expand_empty_elements;
        if let Some(b) = self.check_end_names {
            c.check_end_names = b;
        }
        c.allow_unmatched_ends = self.allow_unmatched_ends;
        c.check_comments = self.check_comments;
    }
}

pub fn parse_reader<R: std::io::BufRead>(r: R, cfg: &RCfg) -> Result<Element<String>, ParserError> {
    let mut reader = Reader::from_reader(r);
    cfg.apply(&mut reader);
    into_struct(&mut reader)
}

pub fn extend_reader<R: std::io::BufRead>(
    root: Element<String>,
    r: R,
    cfg: &RCfg,
) -> Result<Element<String>, ParserError> {
    let mut reader = Reader::from_reader(r);
    cfg.apply(&mut reader);
    extend_struct(&mut reader, root)
}

/// all renderings of an element (both presets, both sort options), separated by \u{1}
pub fn render_all(e: &Element<String>) -> String {
    let mut o = String::new();
    for preset in [Preset::QuickXml, Preset::SerdeXmlRs] {
        for sorted in [false, true] {
            o.push_str(&render(e, preset, sorted));
            o.push('\u{1}');
        }
    }
    o
}

/// a `BufRead` whose behaviour at every `fill_buf` is decided by a chooser:
/// 0 = everything that is left, 1..=4 = the next 1 / 2 / 3 / 7 bytes, 5 = `Interrupted` (then data),
/// 6, 7, 8 = a hard I/O error of kind Other / UnexpectedEof / BrokenPipe (only offered when `hard_errors`)
pub struct ChoiceReader<'a> {
    pub data: &'a [u8],
    pub pos: usize,
    pub chooser: crate::choice::Chooser,
    pub hard_errors: bool,
    window: usize,
    just_interrupted: bool,
    pub failed: bool,
}

impl<'a> ChoiceReader<'a> {
    pub fn new(data: &'a [u8], chooser: crate::choice::Chooser, hard_errors: bool) -> Self {
        ChoiceReader {
            data,
            pos: 0,
            chooser,
            hard_errors,
            window: 0,
            just_interrupted: false,
            failed: false,
        }
    }
}

impl<'a> std::io::Read for ChoiceReader<'a> {
    fn read(&mut self, buf: &mut [u8]) -> std::io::Result<usize> {
        use std::io::BufRead;
        let n = {
            let avail = self.fill_buf()?;
            let n = avail.len().min(buf.len());
            buf[..n].copy_from_slice(&avail[..n]);
            n
        };
        self.consume(n);
        Ok(n)
    }
}

impl<'a> std::io::BufRead for ChoiceReader<'a> {
    fn fill_buf(&mut self) -> std::io::Result<&[u8]> {
        let left = self.data.len() - self.pos;
        if self.window == 0 && left > 0 {
            let arity = if self.just_interrupted {
                5
            } else if self.hard_errors {
                9
            } else {
                6
            };
            let c = self.chooser.choose(arity);
            self.just_interrupted = false;
            match c {
                0 => self.window = left,
                1 => self.window = 1,
                2 => self.window = 2.min(left),
                3 => self.window = 3.min(left),
                4 => self.window = 7.min(left),
                5 => {
                    self.just_interrupted = true;
                    return Err(std::io::Error::new(std::io::ErrorKind::Interrupted, "interrupted"));
                }
                k => {
                    self.failed = true;
                    let kind = match k {
                        6 => std::io::ErrorKind::Other,
                        7 => std::io::ErrorKind::UnexpectedEof,
                        _ => std::io::ErrorKind::BrokenPipe,
                    };
                    return Err(std::io::Error::new(kind, "injected I/O error"));
                }
            }
        }
        Ok(&self.data[self.pos..self.pos + self.window.min(left)])
    }

    fn consume(&mut self, amt: usize) {
        let amt = amt.min(self.window);
        self.pos += amt;
        self.window -= amt;
    }
}
