//! Thin wrappers around the library's public entry points (the subject under verification).

use quick_xml::reader::Reader;
use xml_schema_generator::{extend_struct, into_struct, Element, Options, ParserError, SortBy};

pub fn parse(xml: &[u8]) -> Result<Element<String>, ParserError> {
    let mut reader = Reader::from_reader(xml);
    into_struct(&mut reader)
}

pub fn extend(root: Element<String>, xml: &[u8]) -> Result<Element<String>, ParserError> {
    let mut reader = Reader::from_reader(xml);
    extend_struct(&mut reader, root)
}

/// parse the first document and extend with the others
pub fn parse_all<S: AsRef<[u8]>>(docs: &[S]) -> Result<Element<String>, ParserError> {
    let mut it = docs.iter();
    let first = it.next().expect("at least one document");
    let mut root = parse(first.as_ref())?;
    for d in it {
        root = extend(root, d.as_ref())?;
    }
    Ok(root)
}

#[derive(Clone, Copy, Debug, PartialEq, Eq)]
pub enum Preset {
    QuickXml,
    SerdeXmlRs,
}

pub fn options(preset: Preset, sorted: bool) -> Options {
    let mut o = match preset {
        Preset::QuickXml => Options::quick_xml_de(),
        Preset::SerdeXmlRs => Options::serde_xml_rs(),
    };
    o.sort = if sorted {
        SortBy::XmlName
    } else {
        SortBy::Unsorted
    };
    o
}

pub fn render(e: &Element<String>, preset: Preset, sorted: bool) -> String {
    e.to_serde_struct(&options(preset, sorted))
}

/// run `f`, turning a panic into `Err(message)`; the default panic hook must be silenced once per
/// process with `silence_panics`
pub fn guarded<T>(f: impl FnOnce() -> T) -> Result<T, String> {
    match std::panic::catch_unwind(std::panic::AssertUnwindSafe(f)) {
        Ok(v) => Ok(v),
        Err(p) => Err(if let Some(s) = p.downcast_ref::<&str>() {
            s.to_string()
        } else if let Some(s) = p.downcast_ref::<String>() {
            s.clone()
        } else {
            "panic with non-string payload".to_string()
        }),
    }
}

thread_local! {
    pub static LAST_PANIC_LOCATION: std::cell::RefCell<Option<String>> = const { std::cell::RefCell::new(None) };
}

pub fn silence_panics() {
    std::panic::set_hook(Box::new(|info| {
        let loc = info
            .location()
            .map(|l| format!("{}:{}", l.file(), l.line()));
        LAST_PANIC_LOCATION.with(|c| *c.borrow_mut() = loc);
    }));
}

/// the observation C05 compares: both renderings of a history, or the error
pub fn observe_history<S: AsRef<[u8]>>(docs: &[S]) -> String {
    match guarded(|| parse_all(docs)) {
        Ok(Ok(e)) => match guarded(|| {
            let mut o = render(&e, Preset::QuickXml, false);
            o.push('\u{1}');
            o.push_str(&render(&e, Preset::QuickXml, true));
            o.push('\u{1}');
            o.push_str(&render(&e, Preset::SerdeXmlRs, false));
            o
        }) {
            Ok(o) => o,
            Err(p) => format!("PANIC(render): {}", p),
        },
        Ok(Err(e)) => format!("ERR: {}", e),
        Err(p) => format!("PANIC(parse): {}", p),
    }
}

/// free-running repetition of one history on the library as built (used by the hooks-off helper):
/// `in_thread` runs on the calling thread, then one run in each of `fresh_threads` new threads
/// (every new thread gets fresh SipHash keys). Returns the distinct observations
pub fn repeat_history(docs: &[String], in_thread: usize, fresh_threads: usize) -> Vec<String> {
    let mut outs: Vec<String> = Vec::new();
    let mut push = |o: String| {
        if !outs.contains(&o) {
            outs.push(o);
        }
    };
    for _ in 0..in_thread {
        push(observe_history(docs));
    }
    for _ in 0..fresh_threads {
        let d = docs.to_vec();
        let o = std::thread::spawn(move || observe_history(&d))
            .join()
            .unwrap_or_else(|_| "PANIC(thread)".to_string());
        push(o);
    }
    outs
}
