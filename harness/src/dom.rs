//! Harness-side DOM, XML writer and an independent, event-free mini reader.
//!
//! Nothing here uses the repository's parser or quick-xml: the DOM is the ground truth the
//! reference model is computed from. The mini reader only has to understand what `write_xml`
//! and the document spaces emit (plus ordinary prolog material); it rejects everything else.

#[derive(Clone, Debug, PartialEq, Eq, Hash)]
pub enum Item {
    Elem(Node),
    /// character data exactly as written in the source (entities not expanded)
    Text(String),
    CData(String),
    Comment(String),
    PI(String),
}

#[derive(Clone, Debug, PartialEq, Eq, Hash)]
pub struct Node {
    pub name: String,
    /// in tag order, value as written (without quotes)
    pub attrs: Vec<(String, String)>,
    pub items: Vec<Item>,
    /// written as `<x/>` (only meaningful when `items` is empty)
    pub self_closing: bool,
}

/// material outside the root element
#[derive(Clone, Debug, PartialEq, Eq, Hash)]
pub enum Misc {
    Decl(String),
    DocType(String),
    Comment(String),
    PI(String),
    /// whitespace (or, for element-less inputs, any text)
    Text(String),
}

#[derive(Clone, Debug, PartialEq, Eq, Hash, Default)]
pub struct Doc {
    pub prolog: Vec<Misc>,
    pub root: Option<Node>,
    pub epilog: Vec<Misc>,
}

impl Node {
    pub fn new(name: &str) -> Node {
        Node {
            name: name.to_string(),
            attrs: Vec::new(),
            items: Vec::new(),
            self_closing: false,
        }
    }

    pub fn children(&self) -> impl Iterator<Item = &Node> {
        self.items.iter().filter_map(|i| match i {
            Item::Elem(n) => Some(n),
            _ => None,
        })
    }

    /// true if the element directly contains a text or CDATA node
    pub fn has_chardata(&self) -> bool {
        self.items
            .iter()
            .any(|i| matches!(i, Item::Text(_) | Item::CData(_)))
    }

    pub fn write_xml(&self, out: &mut String) {
        out.push('<');
        out.push_str(&self.name);
        for (k, v) in &self.attrs {
            out.push(' ');
            out.push_str(k);
            out.push_str("=\"");
            out.push_str(v);
            out.push('"');
        }
        if self.items.is_empty() && self.self_closing {
            out.push_str("/>");
            return;
        }
        out.push('>');
        for item in &self.items {
            match item {
                Item::Elem(n) => n.write_xml(out),
                Item::Text(t) => out.push_str(t),
                Item::CData(t) => {
                    out.push_str("<![CDATA[");
                    out.push_str(t);
                    out.push_str("]]>");
                }
                Item::Comment(t) => {
                    out.push_str("<!--");
                    out.push_str(t);
                    out.push_str("-->");
                }
                Item::PI(t) => {
                    out.push_str("<?");
                    out.push_str(t);
                    out.push_str("?>");
                }
            }
        }
        out.push_str("</");
        out.push_str(&self.name);
        out.push('>');
    }

    pub fn depth(&self) -> usize {
        1 + self.children().map(|c| c.depth()).max().unwrap_or(0)
    }

    pub fn element_count(&self) -> usize {
        1 + self.children().map(|c| c.element_count()).sum::<usize>()
    }
}

impl Doc {
    pub fn from_root(root: Node) -> Doc {
        Doc {
            prolog: Vec::new(),
            root: Some(root),
            epilog: Vec::new(),
        }
    }

    pub fn to_xml(&self) -> String {
        let mut out = String::new();
        let misc = |m: &Misc, out: &mut String| match m {
            Misc::Decl(t) => {
                out.push_str("<?");
                out.push_str(t);
                out.push_str("?>");
            }
            Misc::DocType(t) => {
                out.push_str("<!DOCTYPE ");
                out.push_str(t);
                out.push('>');
            }
            Misc::Comment(t) => {
                out.push_str("<!--");
                out.push_str(t);
                out.push_str("-->");
            }
            Misc::PI(t) => {
                out.push_str("<?");
                out.push_str(t);
                out.push_str("?>");
            }
            Misc::Text(t) => out.push_str(t),
        };
        for m in &self.prolog {
            misc(m, &mut out);
        }
        if let Some(r) = &self.root {
            r.write_xml(&mut out);
        }
        for m in &self.epilog {
            misc(m, &mut out);
        }
        out
    }
}

// ---------------------------------------------------------------------------------------------
// mini reader
// ---------------------------------------------------------------------------------------------

struct Rd<'a> {
    s: &'a [u8],
    i: usize,
}

fn is_name_byte(b: u8) -> bool {
    b.is_ascii_alphanumeric() || b == b'_' || b == b'-' || b == b'.' || b == b':' || b >= 0x80
}

impl<'a> Rd<'a> {
    fn starts(&self, p: &str) -> bool {
        self.s[self.i..].starts_with(p.as_bytes())
    }

    fn until(&mut self, end: &str) -> Result<String, String> {
        let hay = &self.s[self.i..];
        let e = end.as_bytes();
        let pos = hay
            .windows(e.len())
            .position(|w| w == e)
            .ok_or_else(|| format!("missing `{}` after offset {}", end, self.i))?;
        let text = std::str::from_utf8(&hay[..pos])
            .map_err(|e| e.to_string())?
            .to_string();
        self.i += pos + e.len();
        Ok(text)
    }

    fn name(&mut self) -> Result<String, String> {
        let start = self.i;
        while self.i < self.s.len() && is_name_byte(self.s[self.i]) {
            self.i += 1;
        }
        if start == self.i {
            return Err(format!("name expected at offset {}", start));
        }
        Ok(std::str::from_utf8(&self.s[start..self.i])
            .map_err(|e| e.to_string())?
            .to_string())
    }

    fn skip_ws(&mut self) {
        while self.i < self.s.len() && self.s[self.i].is_ascii_whitespace() {
            self.i += 1;
        }
    }

    fn text(&mut self) -> Result<String, String> {
        let start = self.i;
        while self.i < self.s.len() && self.s[self.i] != b'<' {
            self.i += 1;
        }
        Ok(std::str::from_utf8(&self.s[start..self.i])
            .map_err(|e| e.to_string())?
            .to_string())
    }

    fn doctype(&mut self) -> Result<String, String> {
        // after `<!DOCTYPE`; supports one level of [ ... ] with quoted strings
        let start = self.i;
        let mut depth = 0i32;
        let mut quote: Option<u8> = None;
        while self.i < self.s.len() {
            let b = self.s[self.i];
            match quote {
                Some(q) => {
                    if b == q {
                        quote = None;
                    }
                }
                None => match b {
                    b'"' | b'\'' => quote = Some(b),
                    b'[' => depth += 1,
                    b']' => depth -= 1,
                    b'>' if depth == 0 => {
                        let t = std::str::from_utf8(&self.s[start..self.i])
                            .map_err(|e| e.to_string())?
                            .trim_start()
                            .to_string();
                        self.i += 1;
                        return Ok(t);
                    }
                    _ => {}
                },
            }
            self.i += 1;
        }
        Err("unterminated DOCTYPE".into())
    }

    fn element(&mut self) -> Result<Node, String> {
        // at '<' followed by a name
        self.i += 1;
        let name = self.name()?;
        let mut node = Node::new(&name);
        loop {
            self.skip_ws();
            if self.starts("/>") {
                self.i += 2;
                node.self_closing = true;
                return Ok(node);
            }
            if self.starts(">") {
                self.i += 1;
                break;
            }
            let key = self.name()?;
            self.skip_ws();
            if !self.starts("=") {
                return Err(format!("`=` expected at offset {}", self.i));
            }
            self.i += 1;
            self.skip_ws();
            let q = *self.s.get(self.i).ok_or("unexpected end in attribute")?;
            if q != b'"' && q != b'\'' {
                return Err(format!("quote expected at offset {}", self.i));
            }
            self.i += 1;
            let value = self.until(if q == b'"' { "\"" } else { "'" })?;
            if node.attrs.iter().any(|(k, _)| *k == key) {
                return Err(format!("duplicate attribute {}", key));
            }
            node.attrs.push((key, value));
        }
        loop {
            if self.i >= self.s.len() {
                return Err(format!("unclosed element {}", name));
            }
            if self.starts("</") {
                self.i += 2;
                let end = self.name()?;
                self.skip_ws();
                if !self.starts(">") {
                    return Err("`>` expected in end tag".into());
                }
                self.i += 1;
                if end != name {
                    return Err(format!("end tag {} does not match {}", end, name));
                }
                return Ok(node);
            } else if self.starts("<!--") {
                self.i += 4;
                node.items.push(Item::Comment(self.until("-->")?));
            } else if self.starts("<![CDATA[") {
                self.i += 9;
                node.items.push(Item::CData(self.until("]]>")?));
            } else if self.starts("<?") {
                self.i += 2;
                node.items.push(Item::PI(self.until("?>")?));
            } else if self.starts("<") {
                node.items.push(Item::Elem(self.element()?));
            } else {
                let t = self.text()?;
                node.items.push(Item::Text(t));
            }
        }
    }
}

/// parse a document written by `Doc::to_xml` (or any ordinary well-formed document built from the
/// same constructs). Returns `Err` for anything it does not understand
pub fn read_doc(src: &str) -> Result<Doc, String> {
    let mut r = Rd {
        s: src.as_bytes(),
        i: 0,
    };
    let mut doc = Doc::default();
    loop {
        if r.i >= r.s.len() {
            break;
        }
        let misc = if r.starts("<?xml ") || r.starts("<?xml?") {
            r.i += 2;
            Some(Misc::Decl(r.until("?>")?))
        } else if r.starts("<?") {
            r.i += 2;
            Some(Misc::PI(r.until("?>")?))
        } else if r.starts("<!--") {
            r.i += 4;
            Some(Misc::Comment(r.until("-->")?))
        } else if r.starts("<!DOCTYPE") {
            r.i += 9;
            Some(Misc::DocType(r.doctype()?))
        } else if r.starts("<") {
            if doc.root.is_some() {
                return Err("second root element".into());
            }
            doc.root = Some(r.element()?);
            None
        } else {
            Some(Misc::Text(r.text()?))
        };
        if let Some(m) = misc {
            if doc.root.is_some() {
                doc.epilog.push(m);
            } else {
                doc.prolog.push(m);
            }
        }
    }
    Ok(doc)
}

/// minimal entity expansion for the five predefined entities and numeric references
pub fn unescape(s: &str) -> String {
    let mut out = String::new();
    let mut rest = s;
    while let Some(p) = rest.find('&') {
        out.push_str(&rest[..p]);
        rest = &rest[p..];
        if let Some(e) = rest.find(';') {
            let ent = &rest[1..e];
            let rep = match ent {
                "amp" => Some('&'),
                "lt" => Some('<'),
                "gt" => Some('>'),
                "quot" => Some('"'),
                "apos" => Some('\''),
                _ => {
                    if let Some(hex) = ent.strip_prefix("#x") {
                        u32::from_str_radix(hex, 16).ok().and_then(char::from_u32)
                    } else if let Some(dec) = ent.strip_prefix('#') {
                        dec.parse::<u32>().ok().and_then(char::from_u32)
                    } else {
                        None
                    }
                }
            };
            match rep {
                Some(c) => {
                    out.push(c);
                    rest = &rest[e + 1..];
                }
                None => {
                    out.push('&');
                    rest = &rest[1..];
                }
            }
        } else {
            break;
        }
    }
    out.push_str(rest);
    out
}

/// local part of a possibly prefixed name (`ns:a` -> `a`), as the statements of C01/C02 use it
pub fn local_name(name: &str) -> &str {
    match name.find(':') {
        Some(i) => &name[i + 1..],
        None => name,
    }
}

#[cfg(test)]
mod tests {
    use super::*;

    #[test]
    fn roundtrip() {
        let src = "<?xml version=\"1.0\"?><!DOCTYPE a [<!ENTITY e \"v>\">]><!--c--><r x=\"1\" y=\"\"><a/><b></b>t<![CDATA[c]]><!--k--><?pi x?><ns:c p:q=\"v\">t</ns:c></r>\n";
        let d = read_doc(src).unwrap();
        assert_eq!(d.to_xml(), src);
        let r = d.root.unwrap();
        assert_eq!(r.attrs.len(), 2);
        assert_eq!(r.items.len(), 7);
        assert!(r.has_chardata());
    }

    #[test]
    fn rejects() {
        assert!(read_doc("<a><b></a>").is_err());
        assert!(read_doc("<a x='1' x='2'/>").is_err());
        assert!(read_doc("<a/><b/>").is_err());
    }
}
