//! Canonical forms of the implementation's `Element` tree (through the cfg-guarded `verif_view`).

use crate::refmodel::{SAttr, SChild, SNode};
use xml_schema_generator::verif::ElementView;
use xml_schema_generator::Element;

/// exact deduplication key: everything except `count` and the text payload (DESIGN §3.4)
pub fn k_full(e: &Element<String>) -> String {
    let mut s = String::new();
    write_full(&e.verif_view(), &mut s);
    s
}

pub fn k_full_view(v: &ElementView) -> String {
    let mut s = String::new();
    write_full(v, &mut s);
    s
}

fn write_full(v: &ElementView, s: &mut String) {
    s.push('<');
    s.push_str(&v.name);
    if v.has_text {
        s.push_str(" #t");
    }
    if !v.standalone {
        s.push_str(" #m");
    }
    if let Some(p) = v.position {
        s.push_str(&format!(" #p{}", p));
    }
    for (a, m) in &v.attributes {
        s.push(' ');
        s.push_str(a);
        s.push(if *m { '!' } else { '?' });
    }
    s.push('>');
    for (m, c) in &v.children {
        s.push(if *m { '!' } else { '?' });
        write_full(c, s);
    }
    s.push_str("</>");
}

/// the implementation's tree as a schema, children in rendering order of the unsorted option
/// (ascending `position`), attributes in stored order
pub fn view_schema(v: &ElementView) -> SNode {
    let mut kids: Vec<&(bool, ElementView)> = v.children.iter().collect();
    kids.sort_by_key(|(_, c)| c.position);
    SNode {
        attrs: v
            .attributes
            .iter()
            .map(|(n, m)| SAttr {
                name: n.clone(),
                optional: !*m,
            })
            .collect(),
        text: v.has_text,
        children: kids
            .into_iter()
            .map(|(m, c)| SChild {
                name: c.name.clone(),
                optional: !*m,
                multiple: !c.standalone,
                node: view_schema(c),
            })
            .collect(),
    }
}

pub fn element_schema(e: &Element<String>) -> SNode {
    view_schema(&e.verif_view())
}

/// structural well-formedness of the internal tree: unique child names, unique attribute names,
/// unique positions among siblings
pub fn tree_invariants(v: &ElementView) -> Result<(), String> {
    for (i, (_, c)) in v.children.iter().enumerate() {
        for (_, d) in v.children.iter().skip(i + 1) {
            if c.name == d.name {
                return Err(format!("element {} has two children named {}", v.name, c.name));
            }
            if c.position.is_some() && c.position == d.position {
                return Err(format!(
                    "children {} and {} of {} share position {:?}",
                    c.name, d.name, v.name, c.position
                ));
            }
        }
        tree_invariants(c)?;
    }
    for (i, (a, _)) in v.attributes.iter().enumerate() {
        if v.attributes.iter().skip(i + 1).any(|(b, _)| a == b) {
            return Err(format!("element {} has attribute {} twice", v.name, a));
        }
    }
    Ok(())
}
