//! Shared machinery of the document/history properties (C01, C03, C06, C09, C11): document
//! entries, alphabets, evaluation of one history on the real code, schema diffing.

use crate::canon;
use crate::docspace::{Kind, Space, SpaceCfg};
use crate::dom::{read_doc, Doc, Node};
use crate::oracle::Binding;
use crate::refmodel::{infer, SAttr, SChild, SNode};
use crate::rsast::{read_structs, resolve, RStruct, RTree};
use crate::subject::{self, Preset};
use serde_json::{json, Value};
use xml_schema_generator::Element;

#[derive(Clone, Debug)]
pub struct DocEntry {
    pub xml: String,
    pub doc: Doc,
}

impl DocEntry {
    pub fn from_doc(doc: Doc) -> DocEntry {
        DocEntry {
            xml: doc.to_xml(),
            doc,
        }
    }
    pub fn from_root(root: Node) -> DocEntry {
        DocEntry::from_doc(Doc::from_root(root))
    }
    pub fn from_xml(xml: &str) -> Result<DocEntry, String> {
        match read_doc(xml) {
            Ok(doc) => Ok(DocEntry { xml: xml.to_string(), doc }),
            // a document that ends inside open elements (the library accepts it): its structure is
            // that of the document with the missing end tags supplied
            Err(e) => match missing_end_tags(xml) {
                Some(tail) if !tail.is_empty() => Ok(DocEntry {
                    xml: xml.to_string(),
                    doc: read_doc(&format!("{}{}", xml, tail)).map_err(|_| e)?,
                }),
                _ => Err(e),
            },
        }
    }
    pub fn root(&self) -> Option<&Node> {
        self.doc.root.as_ref()
    }
}

/// the end tags that would close the elements still open at the end of `xml` (None if the text does
/// not end between two pieces of markup or character data)
pub fn missing_end_tags(xml: &str) -> Option<String> {
    let b = xml.as_bytes();
    let mut stack: Vec<&str> = Vec::new();
    let mut i = 0;
    while i < b.len() {
        if b[i] != b'<' {
            i += 1;
            continue;
        }
        let rest = &xml[i..];
        if rest.starts_with("<!--") {
            i += rest.find("-->")? + 3;
        } else if rest.starts_with("<![CDATA[") {
            i += rest.find("]]>")? + 3;
        } else if rest.starts_with("<?") {
            i += rest.find("?>")? + 2;
        } else if rest.starts_with("<!") {
            // DOCTYPE, possibly with an internal subset
            let close = match rest.find('[') {
                Some(br) if br < rest.find('>')? => rest.find("]>")? + 2,
                _ => rest.find('>')? + 1,
            };
            i += close;
        } else if rest.starts_with("</") {
            let end = rest.find('>')?;
            stack.pop()?;
            i += end + 1;
        } else {
            // start tag: the end is the first '>' outside quotes
            let mut quote: Option<u8> = None;
            let mut j = 1;
            let rb = rest.as_bytes();
            loop {
                let c = *rb.get(j)?;
                match quote {
                    Some(q) if c == q => quote = None,
                    Some(_) => {}
                    None if c == b'"' || c == b'\'' => quote = Some(c),
                    None if c == b'>' => break,
                    None => {}
                }
                j += 1;
            }
            let name_end = rest[1..].find(|c: char| c.is_whitespace() || c == '/' || c == '>').map(|k| k + 1)?;
            if rb[j - 1] != b'/' {
                stack.push(&rest[1..name_end]);
            }
            i += j + 1;
        }
    }
    Some(stack.iter().rev().map(|n| format!("</{}>", n)).collect())
}

/// self-check of a generated document: the mini reader must reproduce the generator's tree
pub fn self_check(e: &DocEntry) -> Result<(), String> {
    match read_doc(&e.xml) {
        Ok(d) if d == e.doc => Ok(()),
        Ok(_) => Err(format!("generator self-check: re-reading `{}` gives a different tree", e.xml)),
        Err(err) => Err(format!("generator self-check: `{}` is not readable: {}", e.xml, err)),
    }
}

/// element-less inputs used as extension events
pub fn elementless() -> Vec<DocEntry> {
    ["", " \n", "<!--k-->", "<?xml version=\"1.0\"?>\n"]
        .iter()
        .map(|x| DocEntry::from_xml(x).expect("element-less input"))
        .collect()
}

/// all documents of a space, materialised (only for small alphabets)
pub fn materialise(cfg: SpaceCfg) -> Vec<DocEntry> {
    let sp = Space::new(cfg);
    (0..sp.len()).map(|i| DocEntry::from_root(sp.get(i))).collect()
}

pub fn plain_cfg(w: usize) -> SpaceCfg {
    let mut c = SpaceCfg::plain(w);
    c.kinds = vec![Kind::Text, Kind::CData];
    c
}

/// alphabet of the history searches: attributes as sequences (order of attributes differs between
/// documents), whitespace-only text as an item kind of its own
pub fn history_cfg(w: usize) -> SpaceCfg {
    let mut c = SpaceCfg::plain(w);
    c.kinds = vec![Kind::Text, Kind::CData, Kind::Ws];
    c.attr_seq = true;
    c
}

/// character data in its degenerate forms: text, white-space-only text and empty CDATA sections
pub fn chardata_cfg(w: usize) -> SpaceCfg {
    let mut c = SpaceCfg::plain(w);
    c.kinds = vec![Kind::Text, Kind::Ws, Kind::CDataEmpty];
    c
}

/// three element names and three attribute names: several siblings appear / disappear together
pub fn wide_cfg(w: usize) -> SpaceCfg {
    let mut c = SpaceCfg::plain(w);
    c.enames = vec!["a".into(), "b".into(), "c".into()];
    c.anames = vec!["x".into(), "y".into(), "z".into()];
    c.max_attrs = 3;
    c.kinds = vec![Kind::Text];
    c.both_empty = true;
    c
}

/// one element name, nesting up to depth 6: repetition at every level
pub fn deep_cfg(w: usize) -> SpaceCfg {
    let mut c = SpaceCfg::plain(w);
    c.enames = vec!["a".into()];
    c.anames = vec!["x".into()];
    c.max_attrs = 1;
    c.depth = 6;
    c.kinds = vec![Kind::Text];
    c.root = "a".into();
    c
}

/// text that is an entity reference (declared in a DOCTYPE), next to ordinary text and CDATA
pub fn entity_cfg(w: usize) -> SpaceCfg {
    let mut c = SpaceCfg::plain(w);
    c.kinds = vec![Kind::Ent, Kind::Text, Kind::CData];
    c.anames = vec!["x".into()];
    c.max_attrs = 1;
    c
}

/// nesting chains of depth 1..=max_depth in a few templates (text / attribute / two repeated leaves
/// at the deepest level; every level a name of its own or one name throughout)
pub fn deep_chain_docs(max_depth: usize) -> Vec<DocEntry> {
    let mut out = Vec::new();
    for depth in 1..=max_depth {
        for template in 0..4 {
            let name = |level: usize| if template % 2 == 0 { format!("e{}", level) } else { "a".to_string() };
            let mut node: Option<Node> = None;
            for level in (0..depth).rev() {
                let mut e = Node::new(&name(level));
                if level + 1 == depth {
                    if template < 2 {
                        e.items.push(crate::dom::Item::Text("t".into()));
                        e.attrs.push(("k".into(), "v".into()));
                    } else {
                        let mut leaf = Node::new("z");
                        leaf.items.push(crate::dom::Item::Text("t".into()));
                        e.items.push(crate::dom::Item::Elem(leaf.clone()));
                        e.items.push(crate::dom::Item::Elem(leaf));
                    }
                }
                if let Some(ch) = node.take() {
                    e.items.push(crate::dom::Item::Elem(ch));
                }
                node = Some(e);
            }
            out.push(DocEntry::from_root(node.unwrap()));
        }
    }
    out
}

/// documents in which one parent occurs n times (n around powers of two up to `max`): occurrence
/// counters must not wrap or saturate
pub fn many_occurrence_docs(max: usize) -> Vec<DocEntry> {
    let mut ns: Vec<usize> = Vec::new();
    for base in [127usize, 255, 256, 511, 1000, 65535, 65536] {
        for n in [base - 1, base, base + 1, base + 2] {
            if n <= max && !ns.contains(&n) {
                ns.push(n);
            }
        }
    }
    let mut out = Vec::new();
    for n in ns {
        // every occurrence has b; only the last one (or the first one) lacks c
        let full = "<a><b/><c/></a>".repeat(n);
        for xml in [
            format!("<r>{}</r>", full),
            format!("<r>{}<a><b/></a></r>", full),
            format!("<r><a><b/></a>{}</r>", full),
        ] {
            if let Ok(d) = DocEntry::from_xml(&xml) {
                out.push(d);
            }
        }
    }
    out
}

/// a history evaluated on the real code
pub struct Eval {
    pub el: Element<String>,
    /// reference schema in first-appearance order, XML names
    pub expected: SNode,
}

pub fn docs_json(docs: &[&DocEntry]) -> Value {
    json!({"docs": docs.iter().map(|d| d.xml.clone()).collect::<Vec<_>>()})
}

pub fn docs_from_json(case: &Value) -> Result<Vec<DocEntry>, String> {
    let arr = case
        .get("docs")
        .and_then(|d| d.as_array())
        .ok_or("replay case has no `docs`")?;
    arr.iter()
        .map(|x| DocEntry::from_xml(x.as_str().unwrap_or("")))
        .collect()
}

pub fn expected_schema(docs: &[&DocEntry]) -> SNode {
    let roots: Vec<&Node> = docs.iter().filter_map(|d| d.root()).collect();
    infer(&roots)
}

/// A call that fails half-way, made on the same thread just before a history starts: the first
/// document with its last end tag replaced by `</>` (everything before it is parsed, then the
/// reader reports the mismatch). The library keeps no state between calls, so this changes nothing;
/// a variant that keeps per-thread scratch state and only tidies it on the success path would start
/// the history from a state no fresh process has ("start from non-initial states too").
pub fn aborted_call_before(docs: &[&DocEntry]) {
    if let Some(d) = docs.first() {
        if let Some(i) = d.xml.rfind("</") {
            let broken = format!("{}</>", &d.xml[..i]);
            let _ = subject::guarded(|| subject::parse(broken.as_bytes()).map(|_| ()));
        }
    }
}

/// run parse + extends on the real code
pub fn run_history(docs: &[&DocEntry]) -> Result<Element<String>, String> {
    aborted_call_before(docs);
    let xmls: Vec<&str> = docs.iter().map(|d| d.xml.as_str()).collect();
    match subject::guarded(|| subject::parse_all(&xmls)) {
        Ok(Ok(e)) => Ok(e),
        Ok(Err(e)) => Err(format!("error: {}", e)),
        Err(p) => Err(format!("panic: {}", p)),
    }
}

/// as `run_history`, but the intermediate tree is rendered after every step (the result is
/// discarded): a rendering must not leave anything behind that a later rendering depends on
pub fn run_history_rendering(docs: &[&DocEntry]) -> Result<Element<String>, String> {
    aborted_call_before(docs);
    let run = || -> Result<Element<String>, xml_schema_generator::ParserError> {
        let mut el = subject::parse(docs[0].xml.as_bytes())?;
        for d in &docs[1..] {
            let _ = subject::render(&el, Preset::QuickXml, false);
            el = subject::extend(el, d.xml.as_bytes())?;
        }
        Ok(el)
    };
    match subject::guarded(run) {
        Ok(Ok(e)) => Ok(e),
        Ok(Err(e)) => Err(format!("error: {}", e)),
        Err(p) => Err(format!("panic: {}", p)),
    }
}

pub struct Rendered {
    pub text: String,
    pub structs: Vec<RStruct>,
    pub tree: RTree,
}

pub fn render_read(el: &Element<String>, preset: Preset, sorted: bool) -> Result<Rendered, String> {
    let text = subject::guarded(|| subject::render(el, preset, sorted))
        .map_err(|p| format!("rendering panicked: {}", p))?;
    let structs = read_structs(&text).map_err(|e| format!("unreadable output: {}", e))?;
    let tree = resolve(&structs).map_err(|e| format!("unresolvable output: {}", e))?;
    Ok(Rendered {
        text,
        structs,
        tree,
    })
}

/// the schema a rendering states, names being the serde-bound names. Needs a non-empty attribute
/// prefix to tell attributes from children
pub fn rendered_schema(structs: &[RStruct], tree: &RTree, b: &Binding) -> SNode {
    let st = &structs[tree.idx];
    let mut out = SNode::default();
    for (fi, f) in st.fields.iter().enumerate() {
        let bound = f.bound();
        if bound == b.text_identifier {
            out.text = true;
        } else if !b.attribute_prefix.is_empty() && bound.starts_with(&b.attribute_prefix) {
            out.attrs.push(SAttr {
                name: bound[b.attribute_prefix.len()..].to_string(),
                optional: f.opt,
            });
        } else {
            let node = match tree.kids.iter().find(|(i, _)| *i == fi) {
                Some((_, sub)) => rendered_schema(structs, sub, b),
                None => SNode {
                    text: true,
                    ..Default::default()
                },
            };
            out.children.push(SChild {
                name: bound.to_string(),
                optional: f.opt,
                multiple: f.vec,
                node,
            });
        }
    }
    out
}

/// expected schema with XML names replaced by the names serde binds them to
pub fn to_bound_names(s: &SNode, b: &Binding) -> SNode {
    SNode {
        attrs: s
            .attrs
            .iter()
            .map(|a| SAttr {
                name: b.attr_bound(&a.name)[b.attribute_prefix.len()..].to_string(),
                optional: a.optional,
            })
            .collect(),
        text: s.text,
        children: s
            .children
            .iter()
            .map(|c| SChild {
                name: b.child_bound(&c.name),
                optional: c.optional,
                multiple: c.multiple,
                node: to_bound_names(&c.node, b),
            })
            .collect(),
    }
}

/// first difference between two schemas (order-free): (class, message)
pub fn diff_schema(expect: &SNode, got: &SNode, path: &str) -> Option<(String, String)> {
    for a in &expect.attrs {
        match got.attr(&a.name) {
            None => {
                return Some((
                    "attribute-missing".into(),
                    format!("{}: attribute {} has no field", path, a.name),
                ))
            }
            Some(g) if g.optional != a.optional => {
                return Some((
                    if a.optional {
                        "attribute-option-missing"
                    } else {
                        "attribute-option-spurious"
                    }
                    .into(),
                    format!(
                        "{}: attribute {} should be {}",
                        path,
                        a.name,
                        if a.optional { "Option" } else { "required" }
                    ),
                ))
            }
            _ => {}
        }
    }
    for g in &got.attrs {
        if expect.attr(&g.name).is_none() {
            return Some((
                "attribute-spurious".into(),
                format!("{}: field for attribute {} that no document has", path, g.name),
            ));
        }
    }
    if expect.text != got.text {
        return Some((
            if expect.text {
                "text-missing"
            } else {
                "text-spurious"
            }
            .into(),
            format!(
                "{}: text field {}",
                path,
                if expect.text {
                    "missing although an occurrence has text/CDATA"
                } else {
                    "present although no occurrence has text/CDATA"
                }
            ),
        ));
    }
    for c in &expect.children {
        match got.child(&c.name) {
            None => {
                return Some((
                    "child-missing".into(),
                    format!("{}: child {} has no field", path, c.name),
                ))
            }
            Some(g) => {
                if g.optional != c.optional {
                    return Some((
                        if c.optional {
                            "child-option-missing"
                        } else {
                            "child-option-spurious"
                        }
                        .into(),
                        format!(
                            "{}: child {} should be {}",
                            path,
                            c.name,
                            if c.optional { "Option" } else { "required" }
                        ),
                    ));
                }
                if g.multiple != c.multiple {
                    return Some((
                        if c.multiple {
                            "child-vec-missing"
                        } else {
                            "child-vec-spurious"
                        }
                        .into(),
                        format!(
                            "{}: child {} should {}be a Vec",
                            path,
                            c.name,
                            if c.multiple { "" } else { "not " }
                        ),
                    ));
                }
                if let Some(d) = diff_schema(&c.node, &g.node, &format!("{}/{}", path, c.name)) {
                    return Some(d);
                }
            }
        }
    }
    for g in &got.children {
        if expect.child(&g.name).is_none() {
            return Some((
                "child-spurious".into(),
                format!("{}: field for child {} that no document has", path, g.name),
            ));
        }
    }
    let dup = |names: Vec<&str>| {
        let mut v = names.clone();
        v.sort();
        v.windows(2).any(|w| w[0] == w[1])
    };
    if dup(got.attrs.iter().map(|a| a.name.as_str()).collect())
        || dup(got.children.iter().map(|a| a.name.as_str()).collect())
    {
        return Some((
            "field-duplicated".into(),
            format!("{}: more than one field for the same name", path),
        ));
    }
    None
}

pub fn internal_schema(el: &Element<String>) -> SNode {
    canon::element_schema(el)
}

// ---------------------------------------------------------------------------------------------
// explicit-state search over extend_struct
// ---------------------------------------------------------------------------------------------

use crate::bfs::{Bfs, BfsStats};
use crate::ctx::Ctx;

pub struct Event {
    /// `Some` for well-formed inputs (with or without a root element), `None` for malformed bytes
    pub entry: Option<DocEntry>,
    pub bytes: Vec<u8>,
    pub label: String,
}

impl Event {
    pub fn doc(d: DocEntry) -> Event {
        Event {
            bytes: d.xml.as_bytes().to_vec(),
            label: d.xml.clone(),
            entry: Some(d),
        }
    }
    pub fn malformed(label: &str, bytes: &[u8]) -> Event {
        Event {
            entry: None,
            bytes: bytes.to_vec(),
            label: label.to_string(),
        }
    }
}

pub struct Transition<'b> {
    pub pred: &'b Element<String>,
    /// documents supplied before the event
    pub before: Vec<&'b DocEntry>,
    pub event: &'b Event,
    pub succ: Option<&'b Element<String>>,
    /// smaller = shorter history
    pub rank: u64,
}

impl<'b> Transition<'b> {
    /// all documents including the event's (if it is a document)
    pub fn all_docs(&self) -> Vec<&'b DocEntry> {
        let mut v = self.before.clone();
        if let Some(e) = &self.event.entry {
            v.push(e);
        }
        v
    }
    pub fn replay_json(&self) -> Value {
        let mut docs: Vec<Value> = self.before.iter().map(|d| json!(d.xml)).collect();
        match &self.event.entry {
            Some(e) => {
                docs.push(json!(e.xml));
                json!({"docs": docs})
            }
            None => json!({"docs": docs, "malformed_event": crate::props::hist::hex(&self.event.bytes), "label": self.event.label}),
        }
    }
}

pub fn hex(b: &[u8]) -> String {
    b.iter().map(|x| format!("{:02x}", x)).collect()
}

pub fn unhex(s: &str) -> Vec<u8> {
    (0..s.len() / 2)
        .filter_map(|i| u8::from_str_radix(&s[2 * i..2 * i + 2], 16).ok())
        .collect()
}

pub struct ExtendSearch<'a> {
    pub ctx: &'a Ctx,
    pub init_docs: &'a [DocEntry],
    pub events: &'a [Event],
    pub depth: usize,
    pub state_cap: usize,
    pub audit_cap: usize,
    /// invariants of an initial state: (document, parsed element)
    pub judge_init: &'a (dyn Fn(&DocEntry, &Element<String>, u64) + Sync),
    pub judge: &'a (dyn Fn(&Transition) + Sync),
}

impl<'a> ExtendSearch<'a> {
    pub fn run(&self) -> BfsStats {
        let mut init_states: Vec<Element<String>> = Vec::new();
        let mut init_index: Vec<usize> = Vec::new();
        for (i, d) in self.init_docs.iter().enumerate() {
            if d.root().is_none() {
                continue;
            }
            match run_history(&[d]) {
                Ok(e) => {
                    init_states.push(e);
                    init_index.push(i);
                }
                Err(msg) => self.ctx.machinery_error(format!(
                    "initial document `{}` is not accepted by into_struct: {}",
                    d.xml, msg
                )),
            }
        }
        let apply = |s: &Element<String>, ev: usize| -> Option<Element<String>> {
            let bytes = &self.events[ev].bytes;
            match subject::guarded(|| subject::extend(s.clone(), bytes)) {
                Ok(Ok(e)) => Some(e),
                _ => None,
            }
        };
        let docs_of = |hist: &[u16]| -> Vec<&DocEntry> {
            let mut v: Vec<&DocEntry> = vec![&self.init_docs[init_index[hist[0] as usize]]];
            for &e in &hist[1..] {
                if let Some(d) = &self.events[e as usize].entry {
                    v.push(d);
                }
            }
            v
        };
        let check = |pred: &Element<String>, hist: &[u16], ev: usize, succ: Option<&Element<String>>| {
            let t = Transition {
                pred,
                before: docs_of(hist),
                event: &self.events[ev],
                succ,
                rank: ((hist.len() as u64) << 40) | ((hist[0] as u64) << 20) | ev as u64,
            };
            (self.judge)(&t);
        };
        let check_init = |s: &Element<String>, i: usize| {
            (self.judge_init)(&self.init_docs[init_index[i]], s, i as u64);
        };
        let key = |s: &Element<String>| canon::k_full(s);
        let observe = |s: &Element<String>| {
            let mut o = subject::render(s, Preset::QuickXml, false);
            o.push_str("\u{1}");
            o.push_str(&subject::render(s, Preset::QuickXml, true));
            o
        };
        let bfs = Bfs {
            n_events: self.events.len(),
            init: init_states,
            apply: &apply,
            check: &check,
            check_init: &check_init,
            key: &key,
            observe: &observe,
            max_depth: self.depth,
            state_cap: self.state_cap,
            audit_cap: self.audit_cap,
            threads: self.ctx.threads,
            deadline: self.ctx.deadline,
        };
        let stats = bfs.run();
        for f in stats.audit_failures.iter().take(5) {
            self.ctx.machinery_soft(format!("merge audit: {}", f));
        }
        // samples: a few histories written out
        for h in stats.sample_histories.iter() {
            let docs = docs_of(h);
            self.ctx.push(
                "samples",
                json!({"history": docs.iter().map(|d| d.xml.clone()).collect::<Vec<_>>()}),
            );
        }
        stats
    }
}

/// fold BFS statistics into the evidence (summing over several searches of one run)
pub fn record_bfs(ctx: &Ctx, label: &str, stats: &BfsStats, alphabet: usize, depth: usize) {
    ctx.add("states", stats.states);
    ctx.add("transitions", stats.transitions);
    ctx.add("traces_validated_against_impl", stats.transitions);
    ctx.add("merges_audited", stats.merges_audited);
    ctx.push(
        "searches",
        json!({
            "search": label,
            "alphabet": alphabet,
            "max_depth": depth,
            "complete_depth": stats.complete_depth,
            "states": stats.states,
            "transitions": stats.transitions,
            "states_per_depth": stats.states_per_depth,
            "merged": stats.merged,
            "merges_audited": stats.merges_audited,
            "cap": stats.capped,
        }),
    );
    if stats.capped.is_some() {
        ctx.set("exhaustive", json!(false));
    }
}

#[cfg(test)]
mod truncated_tests {
    use super::*;

    #[test]
    fn documents_cut_off_inside_open_elements_are_readable() {
        assert_eq!(missing_end_tags("<r><a x=\"1>\"><b/>t").as_deref(), Some("</a></r>"));
        assert_eq!(missing_end_tags("<r><a></a></r>").as_deref(), Some(""));
        let d = DocEntry::from_xml("<r><a><b/>").unwrap();
        let full = DocEntry::from_xml("<r><a><b/></a></r>").unwrap();
        assert_eq!(d.doc, full.doc);
        assert!(DocEntry::from_xml("<r><a></b>").is_err());
    }
}
