//! Name-adversarial document spaces: every ordered tree shape up to a node bound, names assigned in
//! all ways from small subsets of an adversarial pool, a bounded number of decorated nodes
//! (attributes / text). Serves C01(c), C04, C10, C14.

use crate::dom::{local_name, Item, Node};

#[derive(Clone, Copy, Debug, PartialEq, Eq)]
pub struct PoolName {
    pub name: &'static str,
    pub category: &'static str,
    /// usable as element name (everything is usable as attribute name)
    pub element: bool,
}

const fn pn(name: &'static str, category: &'static str) -> PoolName {
    PoolName {
        name,
        category,
        element: true,
    }
}

const fn attr_only(name: &'static str, category: &'static str) -> PoolName {
    PoolName {
        name,
        category,
        element: false,
    }
}

/// the adversarial pool (DESIGN §3.1). Every name consists of identifier characters plus `- . :`
/// and has a letter before any digit
pub const ADV: &[PoolName] = &[
    pn("a", "plain"),
    pn("b", "plain"),
    pn("type", "keyword"),
    pn("Type", "keyword"),
    pn("TYPE", "keyword"),
    pn("self", "keyword"),
    pn("Self", "keyword"),
    pn("SELF", "keyword"),
    pn("crate", "keyword"),
    pn("loop", "keyword"),
    pn("match", "keyword"),
    pn("async", "keyword"),
    pn("try", "keyword"),
    pn("dyn", "keyword"),
    pn("Foo", "case"),
    pn("foo", "case"),
    pn("FOO", "case"),
    pn("fOO", "case"),
    pn("a-b", "separator"),
    pn("a.b", "separator"),
    pn("a_b", "separator"),
    pn("AB", "separator"),
    pn("Ab", "separator"),
    pn("aB", "separator"),
    pn("ns:a", "prefixed"),
    pn("p:a", "prefixed"),
    pn("ns:type", "prefixed"),
    pn("xsi:type", "prefixed"),
    attr_only("xmlns", "xmlns"),
    attr_only("xmlns:ns", "xmlns"),
    attr_only("xml:lang", "prefixed"),
    pn("Total", "concat"),
    pn("Price", "concat"),
    pn("TotalPrice", "concat"),
    pn("Tag", "concat"),
    pn("PriceTag", "concat"),
    pn("String", "std"),
    pn("string", "std"),
    pn("Option", "std"),
    pn("option", "std"),
    pn("Vec", "std"),
    pn("vec", "std"),
    pn("text", "identifier-trap"),
    pn("text_content", "identifier-trap"),
    pn("a_type", "identifier-trap"),
    pn("r_type", "identifier-trap"),
    pn("foo_attr", "identifier-trap"),
    pn("x_1", "identifier-trap"),
    pn("foo_1", "identifier-trap"),
    // the field identifier a namespace declaration `xmlns:ns` is given
    pn("xmlns_ns", "identifier-trap"),
    pn("a1", "digit"),
    pn("a_1", "digit"),
    pn("A1", "digit"),
    pn("x2Y", "digit"),
    pn("utf8String", "digit"),
    pn("é", "non-ascii"),
    pn("Ж", "non-ascii"),
    pn("ж", "non-ascii"),
    pn("中", "non-ascii"),
    pn("_", "degenerate"),
    pn("__", "degenerate"),
    pn("_-", "degenerate"),
    // mixed one-byte and multi-byte characters: a character straddles byte offset 6
    pn("pr\u{e9}f\u{e9}rence", "non-ascii-mixed"),
    pn("x\u{418}\u{43c}\u{44f}", "non-ascii-mixed"),
    // lower case followed by a run of capitals
    pn("customerID", "acronym"),
    pn("HTMLBody", "acronym"),
    // the name the parser gives its own artificial wrapper element
    pn("root", "internal"),
];

pub fn pool(exclude_categories: &[&str]) -> Vec<PoolName> {
    ADV.iter()
        .filter(|p| !exclude_categories.contains(&p.category))
        .cloned()
        .collect()
}

/// all k-subsets of 0..n in lexicographic order
pub fn subsets(n: usize, k: usize) -> Vec<Vec<usize>> {
    fn rec(start: usize, n: usize, k: usize, cur: &mut Vec<usize>, out: &mut Vec<Vec<usize>>) {
        if cur.len() == k {
            out.push(cur.clone());
            return;
        }
        for i in start..n {
            cur.push(i);
            rec(i + 1, n, k, cur, out);
            cur.pop();
        }
    }
    let mut out = Vec::new();
    rec(0, n, k, &mut Vec::new(), &mut out);
    out
}

/// ordered tree shapes with exactly `n` non-root nodes, as parent arrays in pre-order
/// (node 0 is the root; `parents[i]` for i >= 1)
pub fn shapes(n: usize) -> Vec<Vec<usize>> {
    // a forest of n nodes in pre-order: node i attaches to any node on the rightmost path
    fn rec(n: usize, parents: &mut Vec<usize>, out: &mut Vec<Vec<usize>>) {
        if parents.len() == n + 1 {
            out.push(parents.clone());
            return;
        }
        // rightmost path of the current tree: last node and its ancestors
        let mut cand = Vec::new();
        let mut cur = parents.len() - 1;
        loop {
            cand.push(cur);
            if cur == 0 {
                break;
            }
            cur = parents[cur];
        }
        for c in cand {
            parents.push(c);
            rec(n, parents, out);
            parents.pop();
        }
    }
    let mut out = Vec::new();
    rec(n, &mut vec![usize::MAX], &mut out);
    out
}

#[derive(Clone, Debug, PartialEq, Eq)]
pub enum Deco {
    Plain,
    Text,
    Attrs(Vec<usize>),
    AttrsText(Vec<usize>),
}

/// the non-plain decorations available over a subset of `k` names
pub fn decorations(k: usize) -> Vec<Deco> {
    let mut out = vec![Deco::Text];
    for i in 0..k {
        out.push(Deco::Attrs(vec![i]));
    }
    for i in 0..k {
        for j in i + 1..k {
            out.push(Deco::Attrs(vec![i, j]));
        }
    }
    let all: Vec<usize> = (0..k).collect();
    if k > 2 {
        out.push(Deco::Attrs(all.clone()));
    }
    // text next to exactly one attribute (an element whose only attribute is, say, a namespace
    // declaration) as well as text next to all of them
    if k > 1 {
        for i in 0..k {
            out.push(Deco::AttrsText(vec![i]));
        }
    }
    out.push(Deco::AttrsText(all));
    out
}

#[derive(Clone, Debug)]
pub struct TreeParams {
    pub min_nodes: usize,
    pub max_nodes: usize,
    pub max_decorated: usize,
    /// root element names to try: `None` = the fixed name "r", `Some` = also every subset name
    pub root_from_subset: bool,
    /// evaluate only the trees whose running number is `shard.0` modulo `shard.1`
    pub shard: (u64, u64),
}

pub fn build(parents: &[usize], names: &[&str], decos: &[Deco], attr_names: &[&str]) -> Node {
    fn rec(i: usize, parents: &[usize], names: &[&str], decos: &[Deco], attr_names: &[&str]) -> Node {
        let mut n = Node::new(names[i]);
        let (attrs, text): (&[usize], bool) = match &decos[i] {
            Deco::Plain => (&[], false),
            Deco::Text => (&[], true),
            Deco::Attrs(a) => (a, false),
            Deco::AttrsText(a) => (a, true),
        };
        for &a in attrs {
            n.attrs.push((attr_names[a].to_string(), "v".to_string()));
        }
        let kids: Vec<usize> = (1..parents.len()).filter(|&c| parents[c] == i).collect();
        if text && kids.is_empty() {
            n.items.push(Item::Text("t".into()));
        }
        for c in kids {
            n.items.push(Item::Elem(rec(c, parents, names, decos, attr_names)));
        }
        if text && !n.items.is_empty() && !matches!(n.items[0], Item::Text(_)) {
            // mixed content: text after the children
            n.items.push(Item::Text("t".into()));
        }
        n
    }
    rec(0, parents, names, decos, attr_names)
}

/// enumerate every tree over the subset; `f` receives the root node. Returns the number generated
pub fn for_each_tree(subset: &[PoolName], p: &TreeParams, f: &mut dyn FnMut(&Node)) -> u64 {
    let elem_names: Vec<&str> = subset.iter().filter(|n| n.element).map(|n| n.name).collect();
    let attr_names: Vec<&str> = subset.iter().map(|n| n.name).collect();
    let decos = decorations(attr_names.len());
    let mut root_names: Vec<&str> = vec!["r"];
    if p.root_from_subset {
        root_names.extend(elem_names.iter());
    }
    let mut count = 0u64;
    if elem_names.is_empty() && p.min_nodes > 0 {
        return 0;
    }
    for n in p.min_nodes..=p.max_nodes {
        if n > 0 && elem_names.is_empty() {
            break;
        }
        for parents in shapes(n) {
            let total_names = (elem_names.len() as u64).pow(n as u32);
            for root in &root_names {
                for code in 0..total_names {
                    let mut names: Vec<&str> = vec![root];
                    let mut c = code;
                    for _ in 0..n {
                        names.push(elem_names[(c % elem_names.len() as u64) as usize]);
                        c /= elem_names.len() as u64;
                    }
                    // decorations: choose up to max_decorated nodes
                    let mut cur = vec![Deco::Plain; n + 1];
                    deco_rec(0, p.max_decorated, &decos, &mut cur, &mut |d: &[Deco]| {
                        count += 1;
                        if count % p.shard.1 == p.shard.0 {
                            let node = build(&parents, &names, d, &attr_names);
                            f(&node);
                        }
                    });
                }
            }
        }
    }
    count
}

fn deco_rec(start: usize, left: usize, decos: &[Deco], cur: &mut Vec<Deco>, f: &mut dyn FnMut(&[Deco])) {
    deco_rec2(start, left, decos, cur, false, f)
}

/// `any_placed`: some node is decorated already. A decoration "text next to one attribute out of several" is only
/// placed on a tree whose other nodes are plain (in combination with a second decorated node it would double the
/// sweeps with two decorated nodes for little)
fn deco_rec2(start: usize, left: usize, decos: &[Deco], cur: &mut Vec<Deco>, any_placed: bool, f: &mut dyn FnMut(&[Deco])) {
    f(cur);
    if left == 0 {
        return;
    }
    let most = decos.iter().map(|d| match d { Deco::AttrsText(a) => a.len(), _ => 0 }).max().unwrap_or(0);
    for i in start..cur.len() {
        for d in decos {
            let partial = matches!(d, Deco::AttrsText(a) if a.len() < most);
            if partial && any_placed {
                continue;
            }
            cur[i] = d.clone();
            deco_rec2(i + 1, if partial { 0 } else { left - 1 }, decos, cur, true, f);
        }
        cur[i] = Deco::Plain;
    }
}

/// C01's side condition: no two sibling element names and no two attribute names of one element
/// differ only by namespace prefix
pub fn prefix_clash_free(n: &Node) -> bool {
    let kids: Vec<&Node> = n.children().collect();
    for (i, a) in kids.iter().enumerate() {
        for b in kids.iter().skip(i + 1) {
            if a.name != b.name && local_name(&a.name) == local_name(&b.name) {
                return false;
            }
        }
    }
    for (i, (a, _)) in n.attrs.iter().enumerate() {
        for (b, _) in n.attrs.iter().skip(i + 1) {
            if a != b && local_name(a) == local_name(b) && !a.starts_with("xmlns:") && !b.starts_with("xmlns:") {
                return false;
            }
        }
    }
    kids.iter().all(|k| prefix_clash_free(k))
}

/// split a document at the root's child boundary `at` (0 < at < #children) into two documents
pub fn split(root: &Node, at: usize) -> Option<(Node, Node)> {
    let kids: Vec<usize> = root
        .items
        .iter()
        .enumerate()
        .filter(|(_, i)| matches!(i, Item::Elem(_)))
        .map(|(i, _)| i)
        .collect();
    if at == 0 || at >= kids.len() {
        return None;
    }
    let cut = kids[at];
    let mut a = root.clone();
    let mut b = root.clone();
    a.items.truncate(cut);
    b.items.drain(..cut);
    Some((a, b))
}

#[cfg(test)]
mod tests {
    use super::*;

    #[test]
    fn shape_counts_are_catalan() {
        assert_eq!(
            (0..=5).map(|n| shapes(n).len()).collect::<Vec<_>>(),
            vec![1, 1, 2, 5, 14, 42]
        );
    }

    #[test]
    fn tree_counts() {
        let s = [ADV[0], ADV[1]];
        let p = TreeParams {
            min_nodes: 0,
            max_nodes: 2,
            max_decorated: 2,
            root_from_subset: false,
            shard: (0, 1),
        };
        let mut n = 0;
        let c = for_each_tree(&s, &p, &mut |_| n += 1);
        assert_eq!(c, n);
        assert_eq!(c, 6 + 72 + 728);
    }
}
