//! C08 — errors are reported faithfully and only when the input is at fault.
//! The expected verdict is computed by an independent pass over a second default reader on the
//! same bytes, in stream order.

use super::hist::{hex, materialise, unhex};
use crate::bytespace::*;
use crate::ctx::{Ctx, Violation};
use crate::docspace::{Kind, SpaceCfg};
use crate::par::par_for;
use crate::subject;
use quick_xml::events::Event;
use quick_xml::reader::Reader;
use serde_json::{json, Value};
use std::collections::BTreeMap;
use xml_schema_generator::ParserError;

#[derive(Clone, Debug, PartialEq, Eq)]
pub enum Verdict {
    Ok,
    QuickXml { pos: u64, err: String },
    FromUtf8(String),
    Attr(String),
    NoRoot,
}

impl Verdict {
    pub fn class(&self) -> String {
        match self {
            Verdict::Ok => "ok".into(),
            Verdict::QuickXml { err, .. } => format!("syntax:{}", err.split(['(', ' ', '{']).next().unwrap_or("")),
            Verdict::FromUtf8(_) => "utf8".into(),
            Verdict::Attr(e) => format!("attr:{}", e.split(['(', ' ', '{']).next().unwrap_or("")),
            Verdict::NoRoot => "no-element".into(),
        }
    }
}

/// the statement, as a pass over the reader's events. `initial` = into_struct (an input without
/// any element is an error), otherwise extend_struct (it is not)
pub fn expected(bytes: &[u8], initial: bool) -> Verdict {
    let mut reader = Reader::from_reader(bytes);
    let mut buf = Vec::new();
    let mut seen = false;
    loop {
        match reader.read_event_into(&mut buf) {
            Err(e) => {
                return Verdict::QuickXml {
                    pos: reader.buffer_position(),
                    err: format!("{:?}", e),
                }
            }
            Ok(Event::Start(e)) | Ok(Event::Empty(e)) => {
                if let Err(u) = String::from_utf8(e.name().as_ref().to_vec()) {
                    return Verdict::FromUtf8(format!("{:?}", u));
                }
                for a in e.attributes() {
                    match a {
                        Err(err) => return Verdict::Attr(format!("{:?}", err)),
                        Ok(a) => {
                            if let Err(u) = String::from_utf8(a.key.as_ref().to_vec()) {
                                return Verdict::FromUtf8(format!("{:?}", u));
                            }
                        }
                    }
                }
                seen = true;
            }
            Ok(Event::Text(e)) => {
                if let Err(u) = String::from_utf8(e.into_inner().to_vec()) {
                    return Verdict::FromUtf8(format!("{:?}", u));
                }
            }
            Ok(Event::CData(e)) => {
                if let Err(u) = String::from_utf8(e.into_inner().to_vec()) {
                    return Verdict::FromUtf8(format!("{:?}", u));
                }
            }
            Ok(Event::Eof) => break,
            Ok(_) => {}
        }
        buf.clear();
    }
    if !seen && initial {
        return Verdict::NoRoot;
    }
    Verdict::Ok
}

fn observed<T>(r: &Result<T, ParserError>) -> (Verdict, Option<String>) {
    match r {
        Ok(_) => (Verdict::Ok, None),
        Err(e) => {
            let shown = format!("{}", e);
            let v = match e {
                ParserError::QuickXmlError(pos, err) => Verdict::QuickXml { pos: *pos, err: format!("{:?}", err) },
                ParserError::FromUtf8Error(u) => Verdict::FromUtf8(format!("{:?}", u)),
                ParserError::AttrError(a) => Verdict::Attr(format!("{:?}", a)),
                ParserError::ParsingError(_) => Verdict::NoRoot,
            };
            (v, Some(shown))
        }
    }
}

/// judge one input through both entry points; returns the verdict class of the initial parse
const BASE2: &str = "<a\u{fffd}b a\u{fffd}b=\"1\" p:id=\"2\"><a\u{fffd}b/><root/></a\u{fffd}b>";

pub fn judge(bytes: &[u8], rank: u64, out: &mut Vec<Violation>) -> String {
    judge_with(bytes, rank, out, true)
}

pub fn judge_with(bytes: &[u8], rank: u64, out: &mut Vec<Violation>, extra_base: bool) -> String {
    let base = match subject::parse(b"<a x=\"1\"><b/></a>") {
        Ok(b) => b,
        Err(e) => {
            out.push(Violation {
                class: "spurious-error".into(),
                summary: format!("into_struct rejects the valid document <a x=\"1\"><b/></a> (after earlier calls in this process): {}", e),
                replay: json!({"bytes_hex": hex(b"<a x=\"1\"><b/></a>")}),
                rank,
            });
            return "ok".into();
        }
    };
    // second starting point: names that contain U+FFFD (what a lossy decoding of invalid bytes yields),
    // a prefixed attribute and an element literally called root
    let base2 = subject::parse(BASE2.as_bytes()).ok();
    let mut class = String::new();
    for mode in 0..3 {
        let initial = mode == 0;
        if mode == 2 && (!extra_base || base2.is_none()) {
            continue;
        }
        let want = expected(bytes, initial);
        let entry = match mode {
            0 => "into_struct",
            1 => "extend_struct",
            _ => "extend_struct (onto the U+FFFD base)",
        };
        let got = subject::guarded(|| match mode {
            0 => subject::parse(bytes),
            1 => subject::extend(base.clone(), bytes),
            _ => subject::extend(base2.clone().unwrap(), bytes),
        });
        let mk = |kind: &str, msg: String| Violation {
            class: kind.to_string(),
            summary: format!("{} on {:?}: {}", entry, String::from_utf8_lossy(bytes), msg),
            replay: json!({"bytes_hex": hex(bytes)}),
            rank,
        };
        match got {
            Err(p) => out.push(mk("panic", format!("panicked: {}", p))),
            Ok(r) => {
                let (v, shown) = observed(&r);
                if initial {
                    class = want.class();
                }
                if v != want {
                    let kind = match (&want, &v) {
                        (Verdict::Ok, _) => "spurious-error",
                        (_, Verdict::Ok) => "swallowed-error",
                        (Verdict::QuickXml { err: a, .. }, Verdict::QuickXml { err: b, .. }) if a == b => "wrong-position",
                        _ => "wrong-error",
                    };
                    out.push(mk(kind, format!("returned {:?} but the reader events define {:?}", v, want)));
                } else if let (Verdict::QuickXml { pos, err }, Some(s)) = (&v, &shown) {
                    if !s.contains(&pos.to_string()) || !s.contains(err.as_str()) {
                        out.push(mk("display", format!("Display `{}` does not carry position {} and reader error {}", s, pos, err)));
                    }
                }
            }
        }
    }
    class
}

/// repeated elements whose occurrences carry attributes from a pool with equal local names
pub fn special_docs() -> Vec<Vec<u8>> {
    let elements = ["root", "a", "p:a", "a\u{fffd}b"];
    let attrs = ["id", "a:id", "b:id", "xml:lang", "lang", "xmlns:a"];
    let mut out = Vec::new();
    for e in elements {
        for x in attrs {
            for y in attrs {
                out.push(format!("<r><{e} {x}=\"1\"/><{e} {y}=\"2\"/></r>", e = e, x = x, y = y).into_bytes());
                if x != y {
                    out.push(format!("<r><{e} {x}=\"1\" {y}=\"2\"/><{e}/></r>", e = e, x = x, y = y).into_bytes());
                }
                if x < y {
                    out.push(format!("<{e} {x}=\"1\"><{e} {y}=\"2\"><{e}/></{e}></{e}>", e = e, x = x, y = y).into_bytes());
                }
            }
        }
    }
    out
}

/// a valid name containing U+FFFD first, then the same name with invalid bytes in place of U+FFFD
pub fn lossy_twins() -> Vec<Vec<u8>> {
    let mut out = Vec::new();
    let good = "a\u{fffd}b".as_bytes().to_vec();
    for inv in [&b"\xFF"[..], &b"\xC3"[..], &b"\xE2\x82"[..], &b"\xEF\xBF"[..]] {
        let mut bad = b"a".to_vec();
        bad.extend_from_slice(inv);
        bad.push(b'b');
        let cat = |parts: &[&[u8]]| -> Vec<u8> { parts.iter().flat_map(|p| p.iter().copied()).collect() };
        for (first, second) in [(&good, &bad), (&bad, &good)] {
            out.push(cat(&[b"<r><", first, b"/><", second, b"/></r>"]));
            out.push(cat(&[b"<r><", first, b" k=\"1\"/><", second, b"><c/></", second, b"></r>"]));
            out.push(cat(&[b"<", first, b"><", first, b"/><", second, b"/></", first, b">"]));
            out.push(cat(&[b"<r ", first, b"=\"1\" ", second, b"=\"2\"/>"]));
            out.push(cat(&[b"<r><e ", first, b"=\"1\"/><e ", second, b"=\"2\"/></r>"]));
            out.push(cat(&[b"<r><e>", first, b"</e><e>", second, b"</e></r>"]));
            out.push(cat(&[b"<", second, b"/>"]));
            out.push(cat(&[b"<", second, b"><", first, b"/></", second, b">"]));
        }
    }
    out
}

pub fn spaces(ctx: &Ctx) -> Vec<Box<dyn InputSpace>> {
    let mut cfg = SpaceCfg::plain(ctx.tier.pick(3, 3));
    cfg.kinds = vec![Kind::Text, Kind::CData, Kind::Comment, Kind::PI];
    let docs: Vec<Vec<u8>> = materialise(cfg).into_iter().map(|d| d.xml.into_bytes()).collect();
    // the small targeted spaces first: a wall budget that runs out cuts the big exhaustive spaces, not these
    let mut v: Vec<Box<dyn InputSpace>> = Vec::new();
    // long names / values / character data with a multi-byte character at every offset, and deep nesting
    v.push(Box::new(super::c07::Listed(super::c07::long_inputs(ctx.tier.pick(300, 1100)))));
    // special names: prefixed attributes that differ in the prefix only, an element called root, names with
    // U+FFFD next to names with invalid bytes at the same place; every truncation and single-byte edit
    v.push(Box::new(Edits::new(special_docs(), false)));
    v.push(Box::new(super::c07::Listed(lossy_twins())));
    v.push(Box::new(super::c07::Listed((0..(super::c07::MAX_DEPTH * super::c07::DEPTH_TEMPLATES) as u64).map(super::c07::depth_case).collect())));
    v.push(Box::new(Edits::new(docs, false)));
    v.push(Box::new(Tokens { tokens: xml_tokens(), max_len: 5 }));
    v.push(Box::new(Bytes {
        alphabet: BYTE_ALPHABET.to_vec(),
        max_len: ctx.tier.pick(6, 7),
    }));
    if ctx.tier == crate::ctx::Tier::Thorough {
        let mut cfg2 = SpaceCfg::plain(2);
        cfg2.kinds = vec![Kind::Text, Kind::CData, Kind::Comment];
        let docs2: Vec<Vec<u8>> = materialise(cfg2).into_iter().map(|d| d.xml.into_bytes()).collect();
        v.push(Box::new(Edits::new(docs2, true)));
    }
    v
}

pub fn run(ctx: &Ctx) {
    ctx.set("exhaustive", json!(true));
    let mut evals = 0u64;
    let mut classes: BTreeMap<String, u64> = BTreeMap::new();
    // the same verdicts through buffered readers with tiny capacities (the verdict must not depend
    // on how the bytes arrive): token strings up to length 3, with and without leading blank lines
    let toks = Tokens { tokens: xml_tokens(), max_len: 3 };
    let res = par_for(
        toks.len() * 2,
        ctx.threads,
        256,
        Some(ctx.deadline),
        |_| 0u64,
        |acc, k| {
            let mut bytes = if k % 2 == 1 { b"\n\n\n\n".to_vec() } else { Vec::new() };
            bytes.extend(toks.get(k / 2));
            let want = expected(&bytes, true);
            for cap in [1usize, 2, 4] {
                let got = subject::guarded(|| subject::parse_reader(std::io::BufReader::with_capacity(cap, &bytes[..]), &subject::RCfg::default()));
                *acc += 1;
                if let Ok(r) = got {
                    let (v, _) = observed(&r);
                    if v != want {
                        ctx.report(Violation {
                            class: "verdict-depends-on-chunking".into(),
                            summary: format!("into_struct through BufReader::with_capacity({}) on {:?} returned {:?} but the reader events define {:?}", cap, String::from_utf8_lossy(&bytes), v, want),
                            replay: json!({"bytes_hex": hex(&bytes), "capacity": cap}),
                            rank: (1 << 56) | k,
                        });
                    }
                }
            }
        },
    );
    evals += res.accs.iter().sum::<u64>();
    ctx.push("spaces", json!({"space": "token strings of length <= 3, with and without four leading newlines, through BufReader capacities 1, 2, 4", "size": toks.len() * 2, "visited": res.processed}));
    for (si, sp) in spaces(ctx).iter().enumerate() {
        let res = par_for(
            sp.len(),
            ctx.threads,
            2048,
            Some(ctx.deadline),
            |_| BTreeMap::<String, u64>::new(),
            |acc, i| {
                let bytes = sp.get(i);
                let mut vs = Vec::new();
                let class = judge_with(&bytes, ((si as u64) << 48) | i, &mut vs, si < 4);
                ctx.report_all(vs);
                *acc.entry(class).or_insert(0) += 1;
                if ctx.sample_hash_qualifies(((si as u64) << 48) | i) {
                    ctx.sample(((si as u64) << 48) | i, || json!({"input": String::from_utf8_lossy(&bytes), "hex": hex(&bytes), "expected": format!("{:?}", expected(&bytes, true))}));
                }
            },
        );
        for a in res.accs {
            for (k, v) in a {
                *classes.entry(k).or_insert(0) += v;
            }
        }
        evals += res.processed * if si < 4 { 3 } else { 2 };
        ctx.push("spaces", json!({"space": sp.describe(), "size": sp.len(), "visited": res.processed}));
        if !res.complete {
            ctx.set("exhaustive", json!(false));
        }
    }
    ctx.set("evaluations", json!(evals));
    ctx.set("distinct_nontrivial", json!(classes.len()));
    ctx.set("verdict_classes", json!(classes));
    ctx.set(
        "rule",
        json!("every input of the spaces is given to into_struct and to extend_struct (onto <a x=\"1\"><b/></a>; the listed spaces also onto a second value whose names contain U+FFFD, a prefixed attribute and a child called root) with a default reader; the result must agree in Ok/Err, variant and payload (Debug of the carried error; byte position for syntax errors) with an independent pass over a second default reader's events: first reader error -> QuickXmlError(position, error); on Start/Empty: name not UTF-8 -> FromUtf8Error, attributes left to right: iterator error -> AttrError, key not UTF-8 -> FromUtf8Error; Text/CData not UTF-8 -> FromUtf8Error; no element at Eof -> ParsingError for into_struct only; else Ok. distinct_nontrivial = number of distinct expected verdict classes met (see verdict_classes)"),
    );
    ctx.assume("quick-xml 0.37.5 event stream is the definition of 'the underlying reader reports'");
}

pub fn replay(ctx: &Ctx, case: &Value) {
    let bytes = unhex(case["bytes_hex"].as_str().unwrap_or(""));
    if let Some(cap) = case.get("capacity").and_then(|c| c.as_u64()) {
        let want = expected(&bytes, true);
        if let Ok(r) = subject::guarded(|| subject::parse_reader(std::io::BufReader::with_capacity(cap as usize, &bytes[..]), &subject::RCfg::default())) {
            let (v, _) = observed(&r);
            if v != want {
                ctx.report(Violation { class: "verdict-depends-on-chunking".into(), summary: format!("capacity {}: {:?} instead of {:?}", cap, v, want), replay: case.clone(), rank: 0 });
            }
        }
    }
    let mut a = Vec::new();
    let mut b = Vec::new();
    judge(&bytes, 0, &mut a);
    judge(&bytes, 0, &mut b);
    if a.len() != b.len() {
        ctx.machinery_error("replay is not deterministic".into());
    }
    ctx.report_all(a);
}
