//! C03 — Optional / Vec / text inference is exact.
//! (a) every document of a weight-bounded space, (b) explicit-state search over extend_struct.

use super::hist::*;
use crate::ctx::{fnv, Ctx, Violation};
use crate::docspace::Space;
use crate::oracle::{check_exact, Binding, Order};
use crate::par::par_for;
use crate::subject::Preset;
use serde_json::{json, Value};
use std::collections::HashSet;
use xml_schema_generator::Element;

/// judge one history (its documents and the element the real code produced for it)
pub fn judge(docs: &[&DocEntry], el: &Element<String>, rank: u64) -> Vec<Violation> {
    let mut out = Vec::new();
    let expected = expected_schema(docs);
    let internal = internal_schema(el);
    let mk = |class: String, msg: String| Violation {
        class,
        summary: format!(
            "{} | docs: {}",
            msg,
            docs.iter().map(|d| d.xml.as_str()).collect::<Vec<_>>().join(" ++ ")
        ),
        replay: docs_json(docs),
        rank,
    };
    if let Some((class, msg)) = diff_schema(&expected, &internal, "") {
        out.push(mk(format!("tree/{}", class), format!("internal tree: {}", msg)));
    }
    for (preset, b) in [
        (Preset::QuickXml, Binding::quick_xml()),
        (Preset::SerdeXmlRs, Binding::serde_xml_rs()),
    ] {
        for sorted in [false, true] {
            match render_read(el, preset, sorted) {
                Err(e) => out.push(mk("output/unreadable".into(), e)),
                Ok(r) => {
                    if let Err(msg) = check_exact(&expected, &r.structs, &r.tree, &b, Order::Ignore, "") {
                        let class = if preset == Preset::QuickXml {
                            diff_schema(
                                &to_bound_names(&expected, &b),
                                &rendered_schema(&r.structs, &r.tree, &b),
                                "",
                            )
                            .map(|d| d.0)
                            .unwrap_or_else(|| "string-typing".into())
                        } else {
                            "serde-xml-rs-preset".into()
                        };
                        out.push(mk(format!("output/{}", class), msg));
                    }
                }
            }
        }
    }
    out
}

pub fn run(ctx: &Ctx) {
    ctx.set("exhaustive", json!(true));
    // (a) single documents
    let mut all_distinct: HashSet<u64> = HashSet::new();
    let mut total_evals = 0u64;
    for cfg in [plain_cfg(ctx.tier.pick(5, 7)), wide_cfg(ctx.tier.pick(4, 5)), deep_cfg(ctx.tier.pick(6, 8)), history_cfg(ctx.tier.pick(4, 5)), entity_cfg(ctx.tier.pick(4, 5)), chardata_cfg(ctx.tier.pick(5, 6))] {
    let describe = cfg.describe();
    let sp = Space::new(cfg);
    let res = par_for(
        sp.len(),
        ctx.threads,
        512,
        Some(ctx.deadline),
        |_| HashSet::<u64>::new(),
        |acc, i| {
            let d = DocEntry::from_doc(sp.doc(i));
            if i % 97 == 0 {
                if let Err(e) = self_check(&d) {
                    ctx.machinery_error(e);
                }
            }
            match run_history(&[&d]) {
                Ok(el) => {
                    ctx.report_all(judge(&[&d], &el, i));
                    acc.insert(fnv(&expected_schema(&[&d]).sorted().key()));
                }
                Err(msg) => ctx.report(Violation {
                    class: "parse-failed".into(),
                    summary: format!("well-formed document rejected: {} | {}", msg, d.xml),
                    replay: docs_json(&[&d]),
                    rank: i,
                }),
            }
            if ctx.sample_hash_qualifies(i) {
                ctx.sample(i, || json!({"document": d.xml}));
            }
        },
    );
    for a in res.accs {
        all_distinct.extend(a);
    }
    total_evals += res.processed;
    ctx.push("single_document_spaces", json!({"space": describe, "size": sp.len(), "visited": res.processed}));
    if !res.complete {
        ctx.set("exhaustive", json!(false));
        ctx.push("caps", json!(format!("wall budget: {} of {} single documents", res.processed, sp.len())));
    }
    }
    // deep nesting (depth 1..=120), singly and extended with itself
    let chains = deep_chain_docs(120);
    let found = std::sync::atomic::AtomicBool::new(false);
    let res = par_for(
        chains.len() as u64,
        ctx.threads,
        4,
        Some(ctx.deadline),
        |_| 0u64,
        |acc, i| {
            if found.load(std::sync::atomic::Ordering::Relaxed) {
                return; // ascending depth: deeper chains add nothing once a violation is known
            }
            let d = &chains[i as usize];
            for h in [vec![d], vec![d, d]] {
                if let Ok(el) = run_history(&h) {
                    let vs = judge(&h, &el, (1 << 52) | i);
                    if !vs.is_empty() {
                        found.store(true, std::sync::atomic::Ordering::Relaxed);
                    }
                    ctx.report_all(vs);
                    *acc += 1;
                }
            }
        },
    );
    total_evals += res.accs.iter().sum::<u64>();
    ctx.set("deep_chains", json!({"max_depth": 120, "documents": chains.len()}));
    // one parent occurring hundreds / tens of thousands of times
    let many = many_occurrence_docs(ctx.tier.pick(1100, 70_000));
    let res = par_for(
        many.len() as u64,
        ctx.threads,
        1,
        Some(ctx.deadline),
        |_| 0u64,
        |acc, i| {
            let d = &many[i as usize];
            for h in [vec![d], vec![d, d]] {
                if let Ok(el) = run_history(&h) {
                    let mut vs = judge(&h, &el, (1 << 54) | i);
                    for v in vs.iter_mut() {
                        // keep the report readable: the documents are long
                        v.summary = format!("{} … [{} bytes]", v.summary.chars().take(300).collect::<String>(), d.xml.len());
                    }
                    ctx.report_all(vs);
                    *acc += 1;
                }
            }
        },
    );
    total_evals += res.accs.iter().sum::<u64>();
    ctx.set("many_occurrences", json!({"documents": many.len()}));
    ctx.set("evaluations", json!(total_evals));
    ctx.set("distinct_nontrivial", json!(all_distinct.len()));
    // (b) histories
    // adversarial names before the (long) searches: a wall budget that runs out cuts the deepest level of a
    // search, not this part
    names_part(ctx);
    let searches: Vec<(usize, usize)> = ctx.tier.pick(vec![(2, 4), (3, 1)], vec![(2, 8), (3, 2)]);
    for (aw, depth) in searches {
        let alphabet = materialise(history_cfg(aw));
        let mut events: Vec<Event> = alphabet.iter().cloned().map(Event::doc).collect();
        events.extend(elementless().into_iter().map(Event::doc));
        let judge_t = |t: &Transition| match t.succ {
            Some(s) => ctx.report_all(judge(&t.all_docs(), s, t.rank)),
            None => ctx.report(Violation {
                class: "extend-failed".into(),
                summary: format!("extend_struct rejected well-formed `{}`", t.event.label),
                replay: t.replay_json(),
                rank: t.rank,
            }),
        };
        let judge_i = |d: &DocEntry, el: &Element<String>, i: u64| ctx.report_all(judge(&[d], el, i));
        let search = ExtendSearch {
            ctx,
            init_docs: &alphabet,
            events: &events,
            depth,
            state_cap: ctx.tier.pick(400_000, 1_500_000),
            audit_cap: ctx.tier.pick(2_000, 20_000),
            judge_init: &judge_i,
            judge: &judge_t,
        };
        let stats = search.run();
        record_bfs(ctx, &format!("extend over documents of weight <= {}", aw), &stats, events.len(), depth);
    }
    ctx.set(
        "rule",
        json!("(c) small trees over 2-subsets of the adversarial name pool (prefixed names, attribute and child of the same name ...), as one document and split into two, judged like (a). (a) every document of the single-document space, each parsed, rendered under both presets and both sort options and compared for equality with the DOM-based reference schema; distinct_nontrivial = number of distinct reference schemas among them. (b) breadth-first search over extend_struct: states are real Element values deduplicated on the exact K_full key, every transition is the real extend_struct call and is compared with the reference schema of its whole history"),
    );
    ctx.assume("reference model: presence in all occurrences / max count per occurrence / any text or CDATA node, computed from a DOM built by the harness' own reader");
}

pub fn replay(ctx: &Ctx, case: &Value) {
    let docs = match docs_from_json(case) {
        Ok(d) => d,
        Err(e) => return ctx.machinery_error(e),
    };
    let refs: Vec<&DocEntry> = docs.iter().collect();
    let mut seen = Vec::new();
    for _ in 0..2 {
        match run_history(&refs) {
            Ok(el) => {
                let vs = judge(&refs, &el, 0);
                seen.push(vs.iter().map(|v| v.class.clone()).collect::<Vec<_>>());
                ctx.report_all(vs);
            }
            Err(msg) => {
                seen.push(vec![msg.clone()]);
                ctx.report(Violation {
                    class: "parse-failed".into(),
                    summary: msg,
                    replay: case.clone(),
                    rank: 0,
                });
            }
        }
    }
    if seen[0] != seen[1] {
        ctx.machinery_error("replay is not deterministic".into());
    }
}

/// (c) adversarial names: exactness must not depend on how names are spelled
fn names_part(ctx: &Ctx) {
    use super::names::*;
    let pool = pool(&["degenerate"]);
    let subs = subsets(pool.len(), 2);
    let params = TreeParams { min_nodes: 1, max_nodes: 3, max_decorated: 1, root_from_subset: false, shard: (0, 1) };
    let res = par_for(
        subs.len() as u64,
        ctx.threads,
        1,
        Some(ctx.deadline),
        |_| 0u64,
        |acc, si| {
            let subset: Vec<PoolName> = subs[si as usize].iter().map(|&i| pool[i]).collect();
            let mut local = 0u64;
            for_each_tree(&subset, &params, &mut |root| {
                // C03's statement has no side condition on prefixes: ns:a next to a are two children
                local += 1;
                let rank = (1 << 50) | (si << 24) | local.min(0xff_ffff);
                let mut histories: Vec<Vec<DocEntry>> = vec![vec![DocEntry::from_root(root.clone())]];
                for at in 1..root.children().count() {
                    if let Some((a, b)) = split(root, at) {
                        histories.push(vec![DocEntry::from_root(b.clone()), DocEntry::from_root(a.clone())]);
                        histories.push(vec![DocEntry::from_root(a), DocEntry::from_root(b)]);
                    }
                }
                for h in histories {
                    let refs: Vec<&DocEntry> = h.iter().collect();
                    *acc += 1;
                    if let Ok(el) = run_history(&refs) {
                        ctx.report_all(judge(&refs, &el, rank));
                    }
                }
            });
        },
    );
    let evals: u64 = res.accs.iter().sum();
    ctx.add("evaluations", evals);
    ctx.set("named_trees", json!({"pool": pool.len(), "subsets": subs.len(), "subsets_done": res.processed, "nodes_max": params.max_nodes, "histories": evals}));
    if !res.complete {
        ctx.set("exhaustive", json!(false));
        ctx.push("caps", json!("wall or memory budget reached in the part `named trees`: see its done / total counters"));
    }
}
