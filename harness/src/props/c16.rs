//! C16 — hand-built element trees keep unique children and render like parsed ones.
//! Explicit-state search over the public mutators, compared step by step with an ordered-map model.

use crate::bfs::Bfs;
use crate::canon;
use crate::ctx::{Ctx, Violation};
use crate::oracle::{check_exact, Binding, Order};
use crate::refmodel::{SAttr, SChild, SNode};
use crate::subject::{self, Preset};
use crate::wellformed::check_wellformed;
use serde_json::{json, Value};
use xml_schema_generator::verif::ElementView;
use xml_schema_generator::{Element, Necessity};

type El = Element<String>;

#[derive(Clone, Debug, PartialEq, Eq)]
pub struct MNode {
    name: String,
    text: bool,
    standalone: bool,
    attrs: Vec<(String, bool)>,
    children: Vec<(bool, MNode)>,
}

impl MNode {
    fn new(name: &str, attrs: &[&str]) -> MNode {
        MNode {
            name: name.into(),
            text: false,
            standalone: true,
            attrs: attrs.iter().map(|a| (a.to_string(), true)).collect(),
            children: Vec::new(),
        }
    }
    fn child_mut(&mut self, n: &str) -> Option<&mut MNode> {
        self.children.iter_mut().map(|c| &mut c.1).find(|c| c.name == n)
    }
    fn child(&self, n: &str) -> Option<&(bool, MNode)> {
        self.children.iter().find(|c| c.1.name == n)
    }
    /// order-free canonical form
    fn canon(&self) -> String {
        let mut kids: Vec<String> = self
            .children
            .iter()
            .map(|(m, c)| format!("{}{}", if *m { '!' } else { '?' }, c.canon()))
            .collect();
        kids.sort();
        format!(
            "<{}{}{} {:?}>{}</>",
            self.name,
            if self.text { " #t" } else { "" },
            if self.standalone { "" } else { " #m" },
            self.attrs,
            kids.join("")
        )
    }
    fn schema(&self) -> SNode {
        SNode {
            attrs: self.attrs.iter().map(|(n, m)| SAttr { name: n.clone(), optional: !m }).collect(),
            text: self.text,
            children: self
                .children
                .iter()
                .map(|(m, c)| SChild { name: c.name.clone(), optional: !m, multiple: !c.standalone, node: c.schema() })
                .collect(),
        }
    }
}

fn view_canon(v: &ElementView) -> String {
    let mut kids: Vec<String> = v
        .children
        .iter()
        .map(|(m, c)| format!("{}{}", if *m { '!' } else { '?' }, view_canon(c)))
        .collect();
    kids.sort();
    format!(
        "<{}{}{} {:?}>{}</>",
        v.name,
        if v.has_text { " #t" } else { "" },
        if v.standalone { "" } else { " #m" },
        v.attributes,
        kids.join("")
    )
}

#[derive(Clone, Debug)]
pub enum Op {
    Add { name: String, attrs: Vec<String>, text: bool, multiple: bool, nested: bool },
    SetOptional(String),
    Remove(String),
    MergeAttr(Vec<(bool, String)>),
    SetMultiple,
    SetText(bool),
    /// remove_child(name) and keep the removed element aside (replacing what was kept before)
    Take(String),
    /// add_unique_child(the element kept aside): an element that was a child before is added again
    PutBack,
}

#[derive(Clone, Debug)]
pub struct Ev {
    pub path: Vec<String>,
    pub op: Op,
}

impl Ev {
    fn label(&self) -> String {
        format!("at /{} {:?}", self.path.join("/"), self.op)
    }
    fn to_json(&self) -> Value {
        let op = match &self.op {
            Op::Add { name, attrs, text, multiple, nested } => json!({"add": name, "attrs": attrs, "text": text, "multiple": multiple, "nested": nested}),
            Op::SetOptional(n) => json!({"set_child_optional": n}),
            Op::Remove(n) => json!({"remove_child": n}),
            Op::MergeAttr(l) => json!({"merge_attr": l.iter().map(|(m, a)| json!([if *m {"M"} else {"O"}, a])).collect::<Vec<_>>()}),
            Op::SetMultiple => json!("set_multiple"),
            Op::SetText(b) => json!({"set_text": b}),
            Op::Take(n) => json!({"take": n}),
            Op::PutBack => json!("put_back"),
        };
        json!({"path": self.path, "op": op})
    }
    fn from_json(v: &Value) -> Option<Ev> {
        let path = v["path"].as_array()?.iter().filter_map(|x| x.as_str().map(|s| s.to_string())).collect();
        let o = &v["op"];
        let op = if let Some(n) = o.get("add") {
            Op::Add {
                name: n.as_str()?.to_string(),
                attrs: o["attrs"].as_array()?.iter().filter_map(|x| x.as_str().map(|s| s.to_string())).collect(),
                text: o["text"].as_bool()?,
                multiple: o["multiple"].as_bool()?,
                nested: o["nested"].as_bool().unwrap_or(false),
            }
        } else if let Some(n) = o.get("set_child_optional") {
            Op::SetOptional(n.as_str()?.to_string())
        } else if let Some(n) = o.get("remove_child") {
            Op::Remove(n.as_str()?.to_string())
        } else if let Some(l) = o.get("merge_attr") {
            Op::MergeAttr(l.as_array()?.iter().map(|e| (e[0].as_str() == Some("M"), e[1].as_str().unwrap_or("").to_string())).collect())
        } else if o.as_str() == Some("put_back") {
            Op::PutBack
        } else if let Some(n) = o.get("take") {
            Op::Take(n.as_str()?.to_string())
        } else if o.as_str() == Some("set_multiple") {
            Op::SetMultiple
        } else if let Some(b) = o.get("set_text") {
            Op::SetText(b.as_bool()?)
        } else {
            return None;
        };
        Some(Ev { path, op })
    }
}

#[derive(Clone, Debug)]
pub struct State {
    el: El,
    model: MNode,
    held: Option<El>,
    mheld: Option<MNode>,
}

fn new_leaf(name: &str, attrs: &[String], text: bool, multiple: bool, nested: bool) -> (El, MNode) {
    let mut e = Element::new(name.to_string(), attrs.to_vec());
    let mut m = MNode::new(name, &attrs.iter().map(|s| s.as_str()).collect::<Vec<_>>());
    if nested {
        // the new element brings a child of its own
        e.add_unique_child(Element::new("a".to_string(), vec!["y".to_string()]));
        m.children.push((true, MNode::new("a", &["y"])));
    }
    if text {
        e.text = Some("t".to_string());
        m.text = true;
    }
    if multiple {
        e.set_multiple();
        m.standalone = false;
    }
    (e, m)
}

fn target<'a>(el: &'a mut El, path: &[String]) -> Option<&'a mut El> {
    let mut cur = el;
    for p in path {
        cur = cur.get_child_mut(p)?.inner_t_mut();
    }
    Some(cur)
}

fn model_target<'a>(m: &'a mut MNode, path: &[String]) -> Option<&'a mut MNode> {
    let mut cur = m;
    for p in path {
        cur = cur.child_mut(p)?;
    }
    Some(cur)
}

fn merge_model(a: &[(String, bool)], b: &[(bool, String)]) -> Vec<(String, bool)> {
    let mut out: Vec<(String, bool)> = a
        .iter()
        .map(|(n, m)| (n.clone(), *m && b.iter().any(|(bm, bn)| bn == n && *bm)))
        .collect();
    for (_, n) in b {
        if !out.iter().any(|(x, _)| x == n) {
            out.push((n.clone(), false));
        }
    }
    out
}

/// apply an event to implementation and model; returns the step-local disagreements (lookup,
/// removal result, subtree preservation)
fn apply(s: &State, ev: &Ev) -> (State, Vec<(String, String)>) {
    let mut next = s.clone();
    let mut issues: Vec<(String, String)> = Vec::new();
    let (t, mt) = match (target(&mut next.el, &ev.path), model_target(&mut next.model, &ev.path)) {
        (Some(t), Some(mt)) => (t, mt),
        (None, None) => return (next, issues),
        (a, b) => {
            issues.push((
                "lookup".into(),
                format!("get_child_mut along {:?} finds {} but the model {}", ev.path, if a.is_some() { "a node" } else { "nothing" }, if b.is_some() { "has one" } else { "has none" }),
            ));
            return (next, issues);
        }
    };
    // lookup must address the child with the given name (or nothing)
    for n in ["a", "A", "ns:a", "r-a1", "b"] {
        let got = t.get_child(&n.to_string()).map(|c| (matches!(c, Necessity::Mandatory(_)), c.inner_t().name.clone()));
        let want = mt.child(n).map(|(m, c)| (*m, c.name.clone()));
        if got != want {
            issues.push(("lookup".into(), format!("get_child({}) returns {:?}, model {:?}", n, got, want)));
        }
    }
    match &ev.op {
        Op::Add { name, attrs, text, multiple, nested } => {
            let (leaf, mleaf) = new_leaf(name, attrs, *text, *multiple, *nested);
            let before = canon::k_full(t);
            let present = mt.child(name).is_some();
            t.add_unique_child(leaf);
            if present {
                if canon::k_full(t) != before {
                    issues.push(("add-present-changes".into(), format!("adding the already present child {} changed the parent", name)));
                }
            } else {
                mt.children.push((true, mleaf));
            }
        }
        Op::SetOptional(n) => {
            let before = t.get_child(n).map(|c| canon::k_full_view(&strip_position(c.inner_t().verif_view())));
            t.set_child_optional(n);
            let after = t.get_child(n).map(|c| canon::k_full_view(&strip_position(c.inner_t().verif_view())));
            if before != after {
                issues.push(("optional-changes-subtree".into(), format!("set_child_optional({}) changed the child's subtree", n)));
            }
            if let Some(c) = mt.children.iter_mut().find(|c| c.1.name == *n) {
                c.0 = false;
            }
        }
        Op::Remove(n) => {
            let got = t.remove_child(n);
            let want = mt.children.iter().position(|c| c.1.name == *n).map(|i| mt.children.remove(i));
            let g = got.as_ref().map(|c| (matches!(c, Necessity::Mandatory(_)), view_canon(&c.inner_t().verif_view())));
            let w = want.as_ref().map(|(m, c)| (*m, c.canon()));
            if g != w {
                issues.push(("remove-result".into(), format!("remove_child({}) returned {:?}, model {:?}", n, g, w)));
            }
        }
        Op::MergeAttr(l) => {
            let list: Vec<Necessity<String>> = l
                .iter()
                .map(|(m, a)| if *m { Necessity::Mandatory(a.clone()) } else { Necessity::Optional(a.clone()) })
                .collect();
            let taken = std::mem::replace(t, Element::new(String::new(), vec![]));
            *t = taken.merge_attr(list);
            mt.attrs = merge_model(&mt.attrs, l);
        }
        Op::SetMultiple => {
            t.set_multiple();
            mt.standalone = false;
        }
        Op::SetText(b) => {
            t.text = if *b { Some("t".to_string()) } else { None };
            mt.text = *b;
        }
        Op::Take(n) => {
            let got = t.remove_child(n);
            let want = mt.children.iter().position(|c| c.1.name == *n).map(|i| mt.children.remove(i));
            let g = got.as_ref().map(|c| (matches!(c, Necessity::Mandatory(_)), view_canon(&c.inner_t().verif_view())));
            let w = want.as_ref().map(|(m, c)| (*m, c.canon()));
            if g != w {
                issues.push(("remove-result".into(), format!("remove_child({}) returned {:?}, model {:?}", n, g, w)));
            }
            if let Some(c) = got {
                next.held = Some(c.into_inner_t());
            }
            if let Some((_, c)) = want {
                next.mheld = Some(c);
            }
        }
        Op::PutBack => {
            if let (Some(h), Some(mh)) = (next.held.take(), next.mheld.take()) {
                let before = canon::k_full(t);
                let present = mt.child(&mh.name).is_some();
                t.add_unique_child(h);
                if present {
                    if canon::k_full(t) != before {
                        issues.push(("add-present-changes".into(), format!("adding the already present child {} (an element that had been removed before) changed the parent", mh.name)));
                    }
                } else {
                    mt.children.push((true, mh));
                }
            }
        }
    }
    (next, issues)
}

fn strip_position(mut v: ElementView) -> ElementView {
    v.position = None;
    v
}

/// state invariants: uniqueness, agreement with the model, rendering
fn judge_state(s: &State, replay: &Value, rank: u64, summary_prefix: &str) -> Vec<Violation> {
    let mut out = Vec::new();
    let mk = |class: &str, msg: String| Violation {
        class: class.to_string(),
        summary: format!("{}{}", summary_prefix, msg),
        replay: replay.clone(),
        rank,
    };
    let view = s.el.verif_view();
    fn unique(v: &ElementView) -> Result<(), String> {
        for (i, (_, c)) in v.children.iter().enumerate() {
            if v.children.iter().skip(i + 1).any(|(_, d)| d.name == c.name) {
                return Err(format!("element {} has two children named {}", v.name, c.name));
            }
            unique(c)?;
        }
        Ok(())
    }
    if let Err(e) = unique(&view) {
        out.push(mk("duplicate-child", e));
    }
    if view_canon(&view) != s.model.canon() {
        out.push(mk("tree-differs-from-model", format!("tree {} but model {}", view_canon(&view), s.model.canon())));
    }
    for (preset, b) in [(Preset::QuickXml, Binding::quick_xml()), (Preset::SerdeXmlRs, Binding::serde_xml_rs())] {
        for sorted in [false, true] {
            let text = match subject::guarded(|| subject::render(&s.el, preset, sorted)) {
                Ok(t) => t,
                Err(p) => {
                    out.push(mk("render-panic", format!("rendering panicked: {}", p)));
                    continue;
                }
            };
            let checked = check_wellformed(&text);
            for issue in checked.issues.iter() {
                out.push(mk(&format!("output/{}", issue.kind()), issue.message()));
            }
            if let (true, Some(tree)) = (checked.issues.is_empty(), checked.tree.as_ref()) {
                if let Err(msg) = check_exact(&s.model.schema(), &checked.structs, tree, &b, Order::Ignore, "") {
                    out.push(mk("output/fields-differ-from-tree", msg));
                }
            }
        }
    }
    out
}

pub fn events() -> Vec<Ev> {
    // a / A: same PascalCase form, colliding field identifiers; ns:a: same local name as a;
    // r-a1: its struct name equals the numbered name of A below the root r
    let targets: Vec<Vec<String>> = vec![vec![], vec!["a".to_string()]];
    let lists: Vec<Vec<(bool, String)>> = vec![
        vec![],
        vec![(true, "x".into())],
        vec![(false, "x".into())],
        vec![(true, "y".into()), (true, "x".into())],
        vec![(true, "z".into()), (true, "y".into())],
        vec![(true, "x".into()), (true, "z".into()), (true, "w".into())],
        // a name repeated inside the given list (same tag): still one entry of the ordered map
        vec![(true, "y".into()), (true, "x".into()), (true, "y".into()), (true, "x".into())],
        vec![(false, "v".into()), (false, "v".into())],
        // attribute names that differ only in their namespace prefix
        vec![(true, "id".into()), (true, "p:id".into()), (true, "q:id".into())],
        // names with a multi-byte character at every byte offset from 1 to 7
        (1..=7).map(|k| (true, format!("{}\u{e9}b", "a".repeat(k)))).collect(),
    ];
    let mut out = Vec::new();
    for path in targets {
        for (attrs, text, multiple, nested) in [
            (vec![], false, false, false),
            (vec!["x".to_string()], false, false, false),
            // an attribute whose field identifier has to be rewritten (keyword), on one of two equally
            // named elements only (r/a and r/a/a)
            (vec!["type".to_string()], false, false, false),
            (vec![], true, false, false),
            (vec![], false, true, false),
            (vec![], false, false, true),
        ] {
            out.push(Ev { path: path.clone(), op: Op::Add { name: "a".into(), attrs, text, multiple, nested } });
        }
        for n in ["A", "ns:a", "r-a1"] {
            out.push(Ev { path: path.clone(), op: Op::Add { name: n.into(), attrs: vec![], text: false, multiple: false, nested: false } });
        }
        for n in ["a", "A", "ns:a"] {
            out.push(Ev { path: path.clone(), op: Op::SetOptional(n.into()) });
            out.push(Ev { path: path.clone(), op: Op::Remove(n.into()) });
        }
        for n in ["a", "A"] {
            out.push(Ev { path: path.clone(), op: Op::Take(n.into()) });
        }
        out.push(Ev { path: path.clone(), op: Op::PutBack });
        for l in &lists {
            out.push(Ev { path: path.clone(), op: Op::MergeAttr(l.clone()) });
        }
        out.push(Ev { path: path.clone(), op: Op::SetMultiple });
        out.push(Ev { path: path.clone(), op: Op::SetText(true) });
        out.push(Ev { path: path.clone(), op: Op::SetText(false) });
    }
    out
}

fn initial() -> Vec<(Vec<String>, State)> {
    [vec![], vec!["x".to_string()], vec!["x".to_string(), "y".to_string()]]
        .into_iter()
        .map(|attrs| {
            let el = Element::new("r".to_string(), attrs.clone());
            let model = MNode::new("r", &attrs.iter().map(|s| s.as_str()).collect::<Vec<_>>());
            (attrs, State { el, model, held: None, mheld: None })
        })
        .collect()
}

// --- cross-check of the search engine against stateright -----------------------------------------

#[derive(Clone, Debug)]
struct SrState {
    key: String,
    st: State,
}

impl PartialEq for SrState {
    fn eq(&self, o: &Self) -> bool {
        self.key == o.key
    }
}

impl std::hash::Hash for SrState {
    fn hash<H: std::hash::Hasher>(&self, h: &mut H) {
        self.key.hash(h)
    }
}

struct SrModel {
    evs: Vec<Ev>,
}

fn state_key(s: &State) -> String {
    format!(
        "{}|{}|{}|{}",
        canon::k_full(&s.el),
        s.model.canon(),
        s.held.as_ref().map(canon::k_full).unwrap_or_default(),
        s.mheld.as_ref().map(|m| m.canon()).unwrap_or_default()
    )
}

impl stateright::Model for SrModel {
    type State = SrState;
    type Action = usize;

    fn init_states(&self) -> Vec<SrState> {
        initial().into_iter().map(|(_, st)| SrState { key: state_key(&st), st }).collect()
    }

    fn actions(&self, _state: &SrState, actions: &mut Vec<usize>) {
        actions.extend(0..self.evs.len());
    }

    fn next_state(&self, s: &SrState, a: usize) -> Option<SrState> {
        let (next, _) = apply(&s.st, &self.evs[a]);
        Some(SrState { key: state_key(&next), st: next })
    }

    fn properties(&self) -> Vec<stateright::Property<Self>> {
        vec![stateright::Property::<Self>::always("tree equals ordered-map model", |_, s: &SrState| {
            view_canon(&s.st.el.verif_view()) == s.st.model.canon()
        })]
    }
}

/// the same state machine explored by stateright's BFS checker: number of unique states within
/// `depth` transitions, and whether its `always` property found a counterexample
fn stateright_states(depth: usize) -> (usize, bool) {
    use stateright::{Checker, Model};
    let checker = SrModel { evs: events() }
        .checker()
        .threads(1)
        .target_max_depth(depth + 1)
        .spawn_bfs()
        .join();
    (checker.unique_state_count(), !checker.discoveries().is_empty())
}

pub fn run(ctx: &Ctx) {
    let evs = events();
    let inits = initial();
    let depth = ctx.tier.pick(4, 5);
    let hist_json = |hist: &[u16], last: Option<usize>| {
        let mut ops: Vec<Value> = hist[1..].iter().map(|&e| evs[e as usize].to_json()).collect();
        if let Some(l) = last {
            ops.push(evs[l].to_json());
        }
        json!({"root_attributes": inits[hist[0] as usize].0, "ops": ops})
    };
    let apply_f = |s: &State, ev: usize| -> Option<State> { Some(apply(s, &evs[ev]).0) };
    let check = |pred: &State, hist: &[u16], ev: usize, succ: Option<&State>| {
        let replay = hist_json(hist, Some(ev));
        let rank = ((hist.len() as u64) << 32) | ev as u64;
        let prefix = format!("after {} ops, {}: ", hist.len(), evs[ev].label());
        let (_, issues) = apply(pred, &evs[ev]);
        for (class, msg) in issues {
            ctx.report(Violation { class, summary: format!("{}{}", prefix, msg), replay: replay.clone(), rank });
        }
        if let Some(s) = succ {
            ctx.report_all(judge_state(s, &replay, rank, &prefix));
        }
    };
    let check_init = |s: &State, i: usize| {
        ctx.report_all(judge_state(s, &json!({"root_attributes": inits[i].0, "ops": []}), i as u64, "initial: "));
    };
    // the model is part of the key so that a disagreement is never merged away
    let key = |s: &State| state_key(s);
    let observe = |s: &State| subject::guarded(|| subject::render(&s.el, Preset::QuickXml, false)).unwrap_or_else(|p| format!("PANIC: {}", p));
    let bfs = Bfs {
        n_events: evs.len(),
        init: inits.iter().map(|i| i.1.clone()).collect(),
        apply: &apply_f,
        check: &check,
        check_init: &check_init,
        key: &key,
        observe: &observe,
        max_depth: depth,
        state_cap: ctx.tier.pick(600_000, 4_000_000),
        audit_cap: ctx.tier.pick(2_000, 20_000),
        threads: ctx.threads,
        deadline: ctx.deadline,
    };
    let stats = bfs.run();
    for f in stats.audit_failures.iter().take(5) {
        ctx.machinery_soft(format!("merge audit: {}", f));
    }
    for h in stats.sample_histories.iter() {
        ctx.push("samples", hist_json(h, None));
    }
    // engine cross-check: stateright must find the same number of unique states within the same depth
    let cross_depth = ctx.tier.pick(3, 4).min(stats.complete_depth);
    let mine: u64 = stats.states_per_depth.iter().take(cross_depth + 1).sum();
    let (theirs, discovered) = stateright_states(cross_depth);
    ctx.set("engine_cross_check", json!({"engine": "stateright 0.31 BFS checker, 1 thread", "depth": cross_depth, "unique_states_own_engine": mine, "unique_states_stateright": theirs, "stateright_found_counterexample": discovered}));
    // stateright stops at the first counterexample of its `always` property, so the counts are only
    // comparable when it found none; a counterexample there must be matched by a violation here
    if discovered {
        ctx.machinery_soft("stateright found a counterexample to `tree equals ordered-map model` but the own search reported no violation".into());
    } else if mine != theirs as u64 {
        ctx.machinery_error(format!("own BFS found {} unique states within depth {}, stateright {}", mine, cross_depth, theirs));
    }
    ctx.set("states", json!(stats.states));
    ctx.set("transitions", json!(stats.transitions));
    ctx.set("traces_validated_against_impl", json!(stats.transitions));
    ctx.set("states_per_depth", json!(stats.states_per_depth));
    ctx.set("events_per_state", json!(evs.len()));
    ctx.set("max_depth", json!(depth));
    ctx.set("complete_depth", json!(stats.complete_depth));
    ctx.set("merges_audited", json!(stats.merges_audited));
    ctx.set("exhaustive", json!(stats.capped.is_none()));
    if let Some(c) = &stats.capped {
        ctx.set("cap", json!(c));
    }
    ctx.set(
        "rule",
        json!("breadth-first search from Element::new(r, attrs) (attrs in {[], [x], [x,y]}) over the public mutators applied to the root or to a child reached with get_child_mut: add_unique_child (plain leaf / with attribute x / with attribute `type` / with text / already multiple), set_child_optional, remove_child, merge_attr (six lists), set_multiple, text = Some/None; names a, A (same PascalCase form, colliding identifiers), ns:a (same local name), r-a1 (equals a numbered struct name); add_unique_child also of an element that brings a child of its own; take(n) = remove_child keeping the removed element, put_back = add_unique_child of the kept element. Every transition is executed on the real Element and on an ordered-map model; compared after every step: child-name uniqueness, (name, tag) sets, lookup and removal results, no-op of adding a present name, subtree preservation of set_child_optional; every state is rendered (both presets, both sort options), checked for well-formedness as in C04 and its fields compared with the model"),
    );
}

pub fn replay(ctx: &Ctx, case: &Value) {
    let attrs: Vec<String> = case["root_attributes"]
        .as_array()
        .map(|a| a.iter().filter_map(|x| x.as_str().map(|s| s.to_string())).collect())
        .unwrap_or_default();
    let ops: Vec<Ev> = case["ops"].as_array().map(|a| a.iter().filter_map(Ev::from_json).collect()).unwrap_or_default();
    let mut classes: Vec<Vec<String>> = Vec::new();
    for _ in 0..2 {
        let mut run = Vec::new();
        let mut s = State {
            el: Element::new("r".to_string(), attrs.clone()),
            model: MNode::new("r", &attrs.iter().map(|s| s.as_str()).collect::<Vec<_>>()),
            held: None,
            mheld: None,
        };
        for (i, ev) in ops.iter().enumerate() {
            let (next, issues) = apply(&s, ev);
            for (class, msg) in issues {
                run.push(class.clone());
                ctx.report(Violation { class, summary: format!("step {} {}: {}", i, ev.label(), msg), replay: case.clone(), rank: 0 });
            }
            let vs = judge_state(&next, case, 0, &format!("after step {} {}: ", i, ev.label()));
            run.extend(vs.iter().map(|v| v.class.clone()));
            ctx.report_all(vs);
            s = next;
        }
        classes.push(run);
    }
    if classes[0] != classes[1] {
        ctx.machinery_error("replay is not deterministic".into());
    }
}
