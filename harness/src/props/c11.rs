//! C11 — output depends only on document structure, not on incidental detail.

use super::hist::*;
use crate::choice::{explore, Chooser};
use crate::ctx::{Ctx, Violation};
use crate::docspace::{Kind, Space, SpaceCfg};
use crate::dom::{Doc, Item, Misc, Node};
use crate::par::par_for;
use crate::subject::{self, ChoiceReader, RCfg};
use serde_json::{json, Value};
use std::io::BufReader;

/// names whose field identifiers collide (Foo / foo): the internal order of children becomes visible
fn collide_cfg(w: usize) -> SpaceCfg {
    let mut c = SpaceCfg::plain(w);
    c.enames = vec!["Foo".into(), "foo".into(), "p".into()];
    c.anames = vec![];
    c.max_attrs = 0;
    c.kinds = vec![Kind::Text];
    c
}

fn full_cfg(w: usize) -> SpaceCfg {
    let mut c = SpaceCfg::plain(w);
    c.kinds = vec![Kind::Text, Kind::Ws, Kind::CData, Kind::Comment, Kind::PI];
    c
}

// --- the rewrites the statement lists, each applied at every position --------------------------

fn map_nodes(n: &Node, f: &dyn Fn(&mut Node)) -> Node {
    let mut m = n.clone();
    m.items = m
        .items
        .iter()
        .map(|i| match i {
            Item::Elem(c) => Item::Elem(map_nodes(c, f)),
            other => other.clone(),
        })
        .collect();
    f(&mut m);
    m
}

fn drop_comments_pis(n: &Node) -> Node {
    map_nodes(n, &|m| {
        m.items.retain(|i| !matches!(i, Item::Comment(_) | Item::PI(_)));
        // text runs that become adjacent are one text node lexically
        let mut merged: Vec<Item> = Vec::new();
        for i in m.items.drain(..) {
            match (merged.last_mut(), &i) {
                (Some(Item::Text(a)), Item::Text(b)) => a.push_str(b),
                _ => merged.push(i),
            }
        }
        m.items = merged;
    })
}

fn cdata_to_text(n: &Node) -> Node {
    map_nodes(n, &|m| {
        let mut merged: Vec<Item> = Vec::new();
        for i in m.items.drain(..) {
            let i = match i {
                Item::CData(_) => Item::Text("t".into()),
                o => o,
            };
            match (merged.last_mut(), &i) {
                (Some(Item::Text(a)), Item::Text(b)) => a.push_str(b),
                _ => merged.push(i),
            }
        }
        m.items = merged;
    })
}

fn text_to_cdata(n: &Node) -> Node {
    map_nodes(n, &|m| {
        for i in m.items.iter_mut() {
            if matches!(i, Item::Text(_)) {
                *i = Item::CData("c".into());
            }
        }
    })
}

fn expand_empty(n: &Node) -> Node {
    map_nodes(n, &|m| m.self_closing = false)
}

fn collapse_empty(n: &Node) -> Node {
    map_nodes(n, &|m| {
        if m.items.is_empty() {
            m.self_closing = true
        }
    })
}

fn set_values(n: &Node, attr: &str, text: &str) -> Node {
    map_nodes(n, &|m| {
        for (_, v) in m.attrs.iter_mut() {
            *v = attr.to_string();
        }
        for i in m.items.iter_mut() {
            if let Item::Text(t) = i {
                *t = text.to_string();
            }
        }
    })
}

/// canonical member of the skeleton class: values fixed, comments/PIs dropped, CDATA = text,
/// `<x></x>`, character data (if any) as one leading text node
pub fn canon(n: &Node) -> Node {
    map_nodes(n, &|m| {
        let has = m.has_chardata();
        m.items.retain(|i| matches!(i, Item::Elem(_)));
        if has {
            m.items.insert(0, Item::Text("t".into()));
        }
        m.self_closing = false;
        for (_, v) in m.attrs.iter_mut() {
            *v = "v".to_string();
        }
    })
}

fn observe_docs(xmls: &[String]) -> String {
    observe_cfg(xmls, &RCfg::default())
}

fn observe_cfg(xmls: &[String], cfg: &RCfg) -> String {
    let run = || -> Result<String, String> {
        let mut el = subject::parse_reader(xmls[0].as_bytes(), cfg).map_err(|e| e.to_string())?;
        for x in &xmls[1..] {
            el = subject::extend_reader(el, x.as_bytes(), cfg).map_err(|e| e.to_string())?;
        }
        Ok(subject::render_all(&el))
    };
    match subject::guarded(run) {
        Ok(Ok(o)) => o,
        Ok(Err(e)) => format!("ERR: {}", e),
        Err(p) => format!("PANIC: {}", p),
    }
}

fn xml(n: &Node) -> String {
    Doc::from_root(n.clone()).to_xml()
}

fn diff_hint(a: &str, b: &str) -> String {
    for (x, y) in a.split('\n').zip(b.split('\n')) {
        if x != y {
            return format!("`{}` vs `{}`", x.trim(), y.trim());
        }
    }
    "outputs differ in length".into()
}

struct Cmp<'a> {
    ctx: &'a Ctx,
}

impl<'a> Cmp<'a> {
    /// both histories must render identically; returns 1 if the two inputs really differ
    fn same(&self, class: &str, a: &[String], b: &[String], rank: u64, extra: Value) -> u64 {
        if a == b {
            return 0;
        }
        let oa = observe_docs(a);
        let ob = observe_docs(b);
        if oa != ob {
            self.ctx.report(Violation {
                class: class.to_string(),
                summary: format!("{} changes the output: {} | {} <> {}", class, diff_hint(&oa, &ob), a.join(" ++ "), b.join(" ++ ")),
                replay: json!({"kind": "pair", "class": class, "a": a, "b": b, "extra": extra}),
                rank,
            });
        }
        1
    }
}

fn single_rewrites(n: &Node) -> Vec<(&'static str, Node)> {
    vec![
        ("comment-or-pi", drop_comments_pis(n)),
        ("cdata-for-text", cdata_to_text(n)),
        ("text-for-cdata", text_to_cdata(n)),
        ("empty-element-form", expand_empty(n)),
        ("empty-element-form", collapse_empty(n)),
        ("skeleton", canon(n)),
    ]
}

pub fn wrappers() -> Vec<(Vec<Misc>, Vec<Misc>)> {
    let prologs: Vec<Vec<Misc>> = vec![
        vec![],
        vec![Misc::Decl("xml version=\"1.0\" encoding=\"UTF-8\"".into()), Misc::Text("\n".into())],
        vec![Misc::Decl("xml version=\"1.0\"".into()), Misc::DocType("r [<!ENTITY e \"v\"><!ELEMENT r ANY>]".into()), Misc::Text("\n".into())],
        vec![Misc::Comment(" head ".into())],
        vec![Misc::PI("target data".into())],
        vec![Misc::PI("xml-stylesheet type=\"text/xsl\" href=\"s.xsl\"".into()), Misc::Text("\n".into())],
        vec![Misc::DocType("r".into())],
        // processing instructions whose data is not pseudo-attribute syntax
        vec![Misc::PI("xml-stylesheet href=style.css title".into()), Misc::PI("xml-model a=\"1\" a=\"2\"".into())],
        vec![Misc::PI("xml-review checked by \"QA".into()), Misc::Text("\n".into())],
        vec![Misc::Text("\n  ".into())],
        vec![Misc::Decl("xml version=\"1.0\" encoding=\"ISO-8859-1\" standalone=\"yes\"".into())],
    ];
    let epilogs: Vec<Vec<Misc>> = vec![vec![], vec![Misc::Comment("tail".into())], vec![Misc::Text("\n".into()), Misc::PI("end x".into())]];
    let mut out = Vec::new();
    for p in &prologs {
        for e in &epilogs {
            out.push((p.clone(), e.clone()));
        }
    }
    out
}

const ATTR_VALUES: &[&str] = &["v", "a b", "&amp;", "it's", "é√", "&#60;x", "", "default", " "];
const TEXT_VALUES: &[&str] = &["t", "&lt;x", "  padded  ", "é√", "1", "]]"];

pub fn run(ctx: &Ctx) {
    ctx.set("exhaustive", json!(true));
    let cmp = Cmp { ctx };
    // 1. every document against its rewrites and its skeleton representative
    let mut evals = 0u64;
    let mut grouped = 0u64;
    for cfg in [full_cfg(ctx.tier.pick(5, 6)), collide_cfg(ctx.tier.pick(5, 6))] {
    let sp = Space::new(cfg);
    let res = par_for(
        sp.len(),
        ctx.threads,
        256,
        Some(ctx.deadline),
        |_| (0u64, 0u64),
        |acc, i| {
            let n = sp.get(i);
            let x = vec![xml(&n)];
            let mut differs = 0;
            for (class, r) in single_rewrites(&n) {
                let d = cmp.same(class, &x, &[xml(&r)], i, json!(null));
                acc.0 += d;
                if class == "skeleton" {
                    differs += d;
                }
            }
            if differs > 0 {
                acc.1 += 1;
            }
            if ctx.sample_hash_qualifies(i) {
                ctx.sample(i, || json!({"document": x[0], "skeleton_representative": xml(&canon(&n))}));
            }
        },
    );
    evals += res.accs.iter().map(|a| a.0).sum::<u64>();
    let g: u64 = res.accs.iter().map(|a| a.1).sum();
    grouped += g;
    ctx.push("documents", json!({"space": sp.cfg.describe(), "size": sp.len(), "visited": res.processed, "documents_differing_from_their_representative": g}));
    if !res.complete {
        ctx.set("exhaustive", json!(false));
    }
    }
    // 5d. attribute names the XML specifications give a meaning to, with the values those specifications
    // name, around white-space-only character data: the value must still not matter
    {
        let names = ["xml:space", "xml:lang", "xml:id", "xmlns", "xmlns:p", "space", "id", "xsi:nil", "p:nil", "nil", "xsi:type", "xsi:schemaLocation", "xsi:noNamespaceSchemaLocation", "type"];
        let values = ["default", "preserve", "", "en", "http://x/y", " ", "true", "1", "false", "0", "xs:string"];
        let templates = [
            "<r N=\"V\"> <a> </a></r>",
            "<r><a N=\"V\"> </a><a N=\"V\"><b> </b></a></r>",
            "<r N=\"V\"><a>t</a><a> </a><c N=\"V\"/><c N=\"V\"> </c></r>",
            "<r><a N=\"V\"><b>\n  </b></a><a><b>t</b></a></r>",
            "<r><a N=\"V\"><b/></a><d N=\"V\"/><e N=\"V\">t</e></r>",
        ];
        let mut n_special = 0u64;
        for (ti, t) in templates.iter().enumerate() {
            for (ni, n) in names.iter().enumerate() {
                let base = t.replace('N', n).replace('V', "v");
                for (vi, v) in values.iter().enumerate() {
                    let other = t.replace('N', n).replace('V', v);
                    n_special += cmp.same("values", &[base.clone()], &[other], ((ti * 10_000 + ni * 100 + vi) as u64) | (3 << 40), json!(null));
                }
            }
        }
        evals += n_special;
        ctx.set("special_attribute_documents", json!({"templates": templates.len(), "names": names, "values": values, "comparisons": n_special}));
    }
    // 2.-5. wrappers, values, reader configuration and buffer capacities on a smaller space
    let sp3 = Space::new(full_cfg(ctx.tier.pick(3, 4)));
    let wr = wrappers();
    let res = par_for(
        sp3.len(),
        ctx.threads,
        16,
        Some(ctx.deadline),
        |_| 0u64,
        |acc, i| {
            let n = sp3.get(i);
            let plain = xml(&n);
            let base = vec![plain.clone()];
            for (p, e) in &wr {
                let d = Doc { prolog: p.clone(), root: Some(n.clone()), epilog: e.clone() };
                *acc += cmp.same("prolog-or-epilog", &base, &[d.to_xml()], i, json!(null));
            }
            for a in ATTR_VALUES {
                for t in TEXT_VALUES {
                    *acc += cmp.same("values", &base, &[xml(&set_values(&n, a, t))], i, json!(null));
                }
            }
            // every value different from every other (the base document uses one value everywhere)
            {
                let mut d = n.clone();
                let mut counter = 0usize;
                crate::docspace::decorate(&mut d, &mut counter);
                *acc += cmp.same("values", &base, &[xml(&d)], i, json!(null));
            }
            // long values with a multi-byte character around byte 64 / 256
            for cut in [60usize, 63, 64, 65, 250, 255, 256, 257] {
                let long = format!("{}é√{}", "x".repeat(cut), "y".repeat(8));
                *acc += cmp.same("values", &base, &[xml(&set_values(&n, &long, &long))], i, json!(null));
            }
            // text replaced by a reference to an entity declared in the DOCTYPE
            let dt = vec![Misc::DocType("r [<!ENTITY e \"v\">]".into())];
            let with_dt = |m: &Node| Doc { prolog: dt.clone(), root: Some(m.clone()), epilog: vec![] }.to_xml();
            *acc += cmp.same("values", &[with_dt(&n)], &[with_dt(&set_values(&n, "v", "&e;"))], i, json!(null));
            let want = observe_docs(&base);
            // expand_empty_elements
            let got = observe_cfg(&base, &RCfg { expand_empty_elements: true, ..Default::default() });
            *acc += 1;
            if got != want {
                ctx.report(Violation {
                    class: "expand-empty-elements".into(),
                    summary: format!("asking the reader to expand empty elements changes the output: {} | {}", diff_hint(&want, &got), plain),
                    replay: json!({"kind": "expand", "docs": base}),
                    rank: i,
                });
            }
            // buffer capacities (the document as is, and behind leading whitespace / a declaration)
            let lead = format!("\n  {}", plain);
            let decl = format!("<?xml version=\"1.0\"?>\n{}\n", plain);
            // a byte order mark: the reader strips it only when its first read returns at least three bytes
            let bom = format!("\u{feff}{}", plain);
            for (text, cap) in (1..=plain.len().max(1)).map(|c| (&plain, c)).chain((1..=8).map(|c| (&lead, c))).chain((1..=8).map(|c| (&decl, c))).chain((1..=8).map(|c| (&bom, c))) {
                let run = || -> Result<String, String> {
                    let el = subject::parse_reader(BufReader::with_capacity(cap, text.as_bytes()), &RCfg::default()).map_err(|e| e.to_string())?;
                    Ok(subject::render_all(&el))
                };
                let got = match subject::guarded(run) {
                    Ok(Ok(o)) => o,
                    Ok(Err(e)) => format!("ERR: {}", e),
                    Err(p) => format!("PANIC: {}", p),
                };
                *acc += 1;
                if want != got {
                    ctx.report(Violation {
                        class: "buffer-capacity".into(),
                        summary: format!("BufReader capacity {} changes the result | {:?}", cap, text),
                        replay: json!({"kind": "capacity", "docs": base, "text": text, "capacity": cap}),
                        rank: i,
                    });
                }
            }
        },
    );
    evals += res.accs.iter().sum::<u64>();
    ctx.set("wrapped_valued_configured", json!({"space_size": sp3.len(), "visited": res.processed, "wrappers": wr.len(), "value_pairs": ATTR_VALUES.len() * TEXT_VALUES.len()}));
    if !res.complete {
        ctx.set("exhaustive", json!(false));
    }
    // 5b. attribute-heavy documents (two element names, attributes, up to seven tags/attributes):
    // one value everywhere versus a different value at every site
    let attr_space = Space::new(SpaceCfg {
        root: "r".into(),
        enames: vec!["a".into(), "b".into()],
        anames: vec!["x".into(), "y".into()],
        attr_seq: false,
        max_attrs: 2,
        depth: 2,
        kinds: vec![],
        both_empty: false,
        root_attrs: false,
        max_weight: ctx.tier.pick(7, 8),
    });
    let res = par_for(
        attr_space.len(),
        ctx.threads,
        64,
        Some(ctx.deadline),
        |_| 0u64,
        |acc, i| {
            let n = attr_space.get(i);
            let mut d = n.clone();
            let mut counter = 0usize;
            crate::docspace::decorate(&mut d, &mut counter);
            *acc += cmp.same("values", &[xml(&n)], &[xml(&d)], i, json!(null));
        },
    );
    evals += res.accs.iter().sum::<u64>();
    ctx.set("attribute_heavy_documents", json!({"space": attr_space.cfg.describe(), "size": attr_space.len(), "visited": res.processed}));
    if !res.complete {
        ctx.set("exhaustive", json!(false));
    }
    // 5c. many empty elements in both spellings (counters that drift per self-closed element)
    for n in [200usize, 255, 256, 257, 300, 1000] {
        let a = format!("<r>{}</r>", "<b/>".repeat(n));
        let b = format!("<r>{}</r>", "<b></b>".repeat(n));
        let c = format!("<r>{}</r>", "<b k=\"v\"><c/></b>".repeat(n));
        let d = format!("<r>{}</r>", "<b k=\"v\"><c></c></b>".repeat(n));
        evals += cmp.same("empty-element-form", &[a.clone()], &[b], n as u64, json!(null));
        evals += cmp.same("empty-element-form", &[c.clone()], &[d], n as u64, json!(null));
        let want = observe_docs(&[a.clone()]);
        if observe_cfg(&[a.clone()], &RCfg { expand_empty_elements: true, ..Default::default() }) != want {
            ctx.report(Violation {
                class: "expand-empty-elements".into(),
                summary: format!("asking the reader to expand empty elements changes the output for {} empty elements", n),
                replay: json!({"kind": "expand", "docs": [a]}),
                rank: n as u64,
            });
        }
    }
    // 6. reader behaviour (short reads, Interrupted) explored with the choice engine
    let sp2 = Space::new(full_cfg(3));
    let bound = ctx.tier.pick(2, 3);
    let res = par_for(
        sp2.len(),
        ctx.threads,
        4,
        Some(ctx.deadline),
        |_| (0u64, 0u64),
        |acc, i| {
            let plain = if i % 2 == 0 { xml(&sp2.get(i)) } else { format!("\n {}", xml(&sp2.get(i))) };
            let want = observe_cfg(&[plain.clone()], &RCfg::default());
            let st = explore(
                bound,
                20_000,
                &|ch: &Chooser| {
                    let run = || -> Result<String, String> {
                        let el = subject::parse_reader(ChoiceReader::new(plain.as_bytes(), ch.clone(), false), &RCfg::default()).map_err(|e| e.to_string())?;
                        Ok(subject::render_all(&el))
                    };
                    match subject::guarded(run) {
                        Ok(Ok(o)) => o,
                        Ok(Err(e)) => format!("ERR: {}", e),
                        Err(p) => format!("PANIC: {}", p),
                    }
                },
                &mut |choices, _, got: String| {
                    if got != want {
                        ctx.report(Violation {
                            class: "reader-chunking".into(),
                            summary: format!("reader answers {:?} change the result: {} | {}", choices, diff_hint(&want, &got), plain),
                            replay: json!({"kind": "chunking", "docs": [plain], "choices": choices}),
                            rank: i,
                        });
                    }
                },
            );
            acc.0 += st.executions;
            acc.1 += st.points;
            for d in st.divergences {
                ctx.machinery_error(d);
            }
        },
    );
    let execs: u64 = res.accs.iter().map(|a| a.0).sum();
    evals += execs;
    ctx.set("reader_behaviour", json!({"space_size": sp2.len(), "visited": res.processed, "deviation_bound": bound, "executions": execs, "choice_points": res.accs.iter().map(|a| a.1).sum::<u64>()}));
    if !res.complete {
        ctx.set("exhaustive", json!(false));
    }
    // 7. the rewrites applied to members of a history (Start and Empty paths under surrounding occurrences)
    let alpha: Vec<Node> = {
        let s = Space::new(full_cfg(ctx.tier.pick(2, 3)));
        let c = Space::new(collide_cfg(3));
        (0..s.len()).map(|i| s.get(i)).chain((0..c.len()).map(|i| c.get(i))).collect()
    };
    let hist_len = 2;
    let total = (alpha.len() as u64).pow(hist_len as u32);
    let res = par_for(
        total,
        ctx.threads,
        64,
        Some(ctx.deadline),
        |_| 0u64,
        |acc, idx| {
            let mut c = idx;
            let mut nodes: Vec<&Node> = Vec::new();
            for _ in 0..hist_len {
                nodes.push(&alpha[(c % alpha.len() as u64) as usize]);
                c /= alpha.len() as u64;
            }
            let orig: Vec<String> = nodes.iter().map(|n| xml(n)).collect();
            let canon_all: Vec<String> = nodes.iter().map(|n| xml(&canon(n))).collect();
            *acc += cmp.same("skeleton-in-history", &orig, &canon_all, idx, json!(null));
            // longer values and a leading declaration + comment in the first document only
            // (byte offsets of everything that follows move)
            {
                let long = "value ".repeat(20);
                let first = Doc {
                    prolog: vec![Misc::Decl("xml version=\"1.0\"".into()), Misc::Comment(" a rather long leading comment ".repeat(4))],
                    root: Some(set_values(nodes[0], &long, &long)),
                    epilog: vec![],
                }
                .to_xml();
                let mut moved = orig.clone();
                moved[0] = first;
                *acc += cmp.same("values-in-history", &orig, &moved, idx, json!(null));
            }
            // one member rewritten at a time
            for k in 0..hist_len {
                let mut one = orig.clone();
                one[k] = xml(&collapse_empty(nodes[k]));
                *acc += cmp.same("empty-element-form-in-history", &orig, &one, idx, json!(null));
                let mut two = orig.clone();
                two[k] = xml(&text_to_cdata(nodes[k]));
                *acc += cmp.same("cdata-in-history", &orig, &two, idx, json!(null));
            }
        },
    );
    evals += res.accs.iter().sum::<u64>();
    ctx.set("histories", json!({"alphabet": alpha.len(), "length": hist_len, "histories": total, "visited": res.processed}));
    if !res.complete {
        ctx.set("exhaustive", json!(false));
    }
    ctx.set("evaluations", json!(evals));
    ctx.set("distinct_nontrivial", json!(grouped));
    ctx.set(
        "rule",
        json!("(1) every document of the space (items: text, whitespace text, CDATA, comment, PI; both empty-element spellings) is compared byte for byte (both presets, both sort options) with each listed rewrite applied at every position (comments/PIs removed, CDATA<->text, <x/><-><x></x>) and with the canonical representative of its structure skeleton; (2) prolog/epilog wrappers, (3) attribute/text value alphabets, (4) expand_empty_elements, (5) every BufReader capacity 1..len, (6) all reader answer sequences (short reads of 1/2/3/7 bytes, Interrupted) within the deviation bound, (7) the rewrites applied to members of parse+extend histories. evaluations = comparisons between two really different inputs/configurations; distinct_nontrivial = documents that differ from their skeleton representative"),
    );
}

pub fn replay(ctx: &Ctx, case: &Value) {
    let strs = |v: &Value| -> Vec<String> { v.as_array().map(|a| a.iter().filter_map(|x| x.as_str().map(|s| s.to_string())).collect()).unwrap_or_default() };
    let cmp = Cmp { ctx };
    match case["kind"].as_str() {
        Some("pair") => {
            let a = strs(&case["a"]);
            let b = strs(&case["b"]);
            if observe_docs(&a) != observe_docs(&a) {
                ctx.machinery_error("replay is not deterministic".into());
            }
            cmp.same(case["class"].as_str().unwrap_or("pair"), &a, &b, 0, json!(null));
        }
        Some("expand") => {
            let d = strs(&case["docs"]);
            if observe_docs(&d) != observe_cfg(&d, &RCfg { expand_empty_elements: true, ..Default::default() }) {
                ctx.report(Violation { class: "expand-empty-elements".into(), summary: "expand_empty_elements changes the output".into(), replay: case.clone(), rank: 0 });
            }
        }
        Some("capacity") => {
            let d = strs(&case["docs"]);
            let cap = case["capacity"].as_u64().unwrap_or(1) as usize;
            let want = observe_docs(&d);
            let text = case["text"].as_str().unwrap_or(&d[0]).to_string();
            let got = subject::parse_reader(BufReader::with_capacity(cap, text.as_bytes()), &RCfg::default()).map(|e| subject::render_all(&e)).unwrap_or_else(|e| format!("ERR: {}", e));
            if want != got {
                ctx.report(Violation { class: "buffer-capacity".into(), summary: format!("capacity {} changes the result", cap), replay: case.clone(), rank: 0 });
            }
        }
        Some("chunking") => {
            let d = strs(&case["docs"]);
            let choices: Vec<usize> = case["choices"].as_array().map(|a| a.iter().filter_map(|x| x.as_u64().map(|v| v as usize)).collect()).unwrap_or_default();
            let want = observe_cfg(&d, &RCfg::default());
            let run = |c: Vec<usize>| {
                subject::parse_reader(ChoiceReader::new(d[0].as_bytes(), Chooser::new(c), false), &RCfg::default())
                    .map(|e| subject::render_all(&e))
                    .unwrap_or_else(|e| format!("ERR: {}", e))
            };
            let got = run(choices.clone());
            if got != run(choices.clone()) {
                ctx.machinery_error("replay is not deterministic".into());
            }
            if got != want {
                ctx.report(Violation { class: "reader-chunking".into(), summary: format!("reader answers {:?} change the result", choices), replay: case.clone(), rank: 0 });
            }
        }
        _ => ctx.machinery_error("unknown replay kind".into()),
    }
}
