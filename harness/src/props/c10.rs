//! C10 — options change exactly what they name and nothing else (relational oracle between
//! renderings of the same tree under different options).

use super::hist::*;
use super::names::*;
use crate::ctx::{Ctx, Violation};
use crate::docspace::Space;
use crate::par::par_for;
use crate::rsast::{parse_rendered, RStruct};
use crate::subject;
use serde_json::{json, Value};
use xml_schema_generator::{Element, Options, SortBy};

const DERIVES: &[&str] = &["Serialize, Deserialize", "", "Debug", "Clone, Debug, PartialEq, serde::Deserialize", "  spaced ,Odd  ", "Debug, Clone, Debug, PartialEq", "Debug,Clone", " ", "Clone, Debug, Default, Eq, Hash, Ord, PartialEq, PartialOrd, serde::Serialize, serde::Deserialize, SomeOtherCrate::WithAVeryLongName"];
const PREFIXES: &[&str] = &["@", "", "attr_", "@@", "a", "a_", "ns_"];
const TEXTS: &[&str] = &["$text", "$value", "text", "#text"];

fn opts(derive: &str, prefix: &str, text: &str, sorted: bool) -> Options {
    Options {
        text_identifier: text.to_string(),
        attribute_prefix: prefix.to_string(),
        derive: derive.to_string(),
        sort: if sorted { SortBy::XmlName } else { SortBy::Unsorted },
    }
}

fn raw_derive_lines(text: &str) -> Vec<&str> {
    text.lines().filter(|l| l.starts_with("#[derive(")).collect()
}

/// compare the rendering under (derive, prefix, text) with the base rendering (quick-xml preset, same sort)
fn compare(base: &[RStruct], text: &str, derive: &str, prefix: &str, text_ident: &str) -> Result<(), (&'static str, String)> {
    let got = parse_rendered(text).map_err(|e| ("unreadable", e))?;
    if got.len() != base.len() {
        return Err(("struct-set", format!("{} structs instead of {}", got.len(), base.len())));
    }
    // derive: verbatim on every struct, absent when empty
    let lines = raw_derive_lines(text);
    if derive.is_empty() {
        if !lines.is_empty() {
            return Err(("derive", "a derive attribute is emitted although the derive option is empty".into()));
        }
    } else {
        let want = format!("#[derive({})]", derive);
        if lines.len() != got.len() || lines.iter().any(|l| *l != want) {
            return Err(("derive", format!("derive lines {:?} but every struct should carry exactly `{}`", lines.iter().take(2).collect::<Vec<_>>(), want)));
        }
    }
    for (b, g) in base.iter().zip(got.iter()) {
        if b.name != g.name {
            return Err(("struct-set", format!("struct `{}` is called `{}` under these options", b.name, g.name)));
        }
        if b.fields.len() != g.fields.len() {
            return Err(("field-set", format!("struct {} has {} fields instead of {}", b.name, g.fields.len(), b.fields.len())));
        }
        for (bf, gf) in b.fields.iter().zip(g.fields.iter()) {
            if bf.ident != gf.ident || bf.ty() != gf.ty() {
                return Err((
                    "field-set",
                    format!("field {}.{}: {} became {}: {} (identifier, type or order changed)", b.name, bf.ident, bf.ty(), gf.ident, gf.ty()),
                ));
            }
            let bb = bf.bound();
            let want_bound = if bb == "$text" {
                text_ident.to_string()
            } else if let Some(local) = bb.strip_prefix('@') {
                format!("{}{}", prefix, local)
            } else {
                bb.to_string()
            };
            if gf.bound() != want_bound {
                return Err((
                    "binding",
                    format!("field {}.{} is bound to `{}` but should be bound to `{}`", g.name, gf.ident, gf.bound(), want_bound),
                ));
            }
            if bb != "$text" && gf.rename.is_some() && gf.rename.as_deref() == Some(gf.ident.as_str()) {
                return Err(("needless-rename", format!("field {}.{} carries a rename equal to its identifier", g.name, gf.ident)));
            }
        }
    }
    Ok(())
}

pub fn judge(docs: &[&DocEntry], el: &Element<String>, rank: u64) -> (Vec<Violation>, u64) {
    let mut out = Vec::new();
    let mut renders = 0u64;
    let mk = |class: &str, msg: String, o: (&str, &str, &str, bool)| Violation {
        class: class.to_string(),
        summary: format!(
            "[derive={:?} prefix={:?} text={:?} sorted={}] {} | docs: {}",
            o.0, o.1, o.2, o.3, msg,
            docs.iter().map(|d| d.xml.as_str()).collect::<Vec<_>>().join(" ++ ")
        ),
        replay: docs_json(docs),
        rank,
    };
    for sorted in [false, true] {
        let base_text = match subject::guarded(|| subject::render(el, subject::Preset::QuickXml, sorted)) {
            Ok(t) => t,
            Err(_) => continue, // a panicking renderer is C07's business
        };
        let base = match parse_rendered(&base_text) {
            Ok(b) => b,
            Err(e) => {
                out.push(mk("unreadable", e, ("", "", "", sorted)));
                continue;
            }
        };
        // the base rendering itself must bind every field to the name the documents define
        // (otherwise a wrong binding common to all option tuples would go unnoticed)
        if let Ok(tree) = crate::rsast::resolve(&base) {
            let b = crate::oracle::Binding::quick_xml();
            fn names(s: &crate::refmodel::SNode, out: &mut Vec<String>, path: &str) {
                for a in &s.attrs {
                    out.push(format!("{}/@{}", path, a.name));
                }
                if s.text {
                    out.push(format!("{}/$text", path));
                }
                for c in &s.children {
                    out.push(format!("{}/{}", path, c.name));
                    names(&c.node, out, &format!("{}/{}", path, c.name));
                }
            }
            let mut want = Vec::new();
            names(&to_bound_names(&expected_schema(docs), &b), &mut want, "");
            let mut got = Vec::new();
            names(&rendered_schema(&base, &tree, &b), &mut got, "");
            want.sort();
            got.sort();
            if want != got {
                out.push(mk("binding", format!("fields are bound to {:?} but the documents define {:?}", got, want), ("", "@", "$text", sorted)));
            }
        }
        // the presets must be two of the tuples
        let q = Options::quick_xml_de();
        let s = Options::serde_xml_rs();
        for (name, p) in [("quick_xml_de", &q), ("serde_xml_rs", &s)] {
            if !DERIVES.contains(&p.derive.as_str()) || !PREFIXES.contains(&p.attribute_prefix.as_str()) || !TEXTS.contains(&p.text_identifier.as_str()) || !matches!(p.sort, SortBy::Unsorted) {
                out.push(mk("preset-outside-space", format!("preset {} is not one of the enumerated option tuples (derive {:?}, prefix {:?}, text {:?})", name, p.derive, p.attribute_prefix, p.text_identifier), ("", "", "", sorted)));
            }
        }
        for derive in DERIVES {
            for prefix in PREFIXES {
                for text in TEXTS {
                    let o = opts(derive, prefix, text, sorted);
                    renders += 1;
                    match subject::guarded(|| el.to_serde_struct(&o)) {
                        Err(p) => out.push(mk("render-panic", p, (derive, prefix, text, sorted))),
                        Ok(t) => {
                            if let Err((class, msg)) = compare(&base, &t, derive, prefix, text) {
                                out.push(mk(class, msg, (derive, prefix, text, sorted)));
                            }
                        }
                    }
                }
            }
        }
        // the derive() builder applied to arbitrary options changes the derive string and nothing else
        for prefix in PREFIXES {
            for text in TEXTS {
                for derive in DERIVES.iter().take(3) {
                    let built = opts("Other", prefix, text, sorted).derive(derive);
                    let want = opts(derive, prefix, text, sorted);
                    let same = built.text_identifier == want.text_identifier
                        && built.attribute_prefix == want.attribute_prefix
                        && built.derive == want.derive
                        && matches!((&built.sort, &want.sort), (SortBy::XmlName, SortBy::XmlName) | (SortBy::Unsorted, SortBy::Unsorted));
                    if !same {
                        out.push(mk("builder", format!("Options {{ .. }}.derive({:?}) changes more than the derive string: text identifier {:?}, prefix {:?}, sort by name {}", derive, built.text_identifier, built.attribute_prefix, matches!(built.sort, SortBy::XmlName)), (derive, prefix, text, sorted)));
                    }
                }
            }
        }
        // the preset constructors themselves (not only equal field values)
        for (name, p, prefix) in [("quick_xml_de", Options::quick_xml_de(), "@"), ("serde_xml_rs", Options::serde_xml_rs(), "")] {
            let mut p = p;
            p.sort = if sorted { SortBy::XmlName } else { SortBy::Unsorted };
            let d = p.derive.clone();
            let t = p.text_identifier.clone();
            if p.attribute_prefix != prefix {
                out.push(mk("preset", format!("preset {} has attribute prefix {:?}", name, p.attribute_prefix), (&d, prefix, &t, sorted)));
            }
            renders += 1;
            let text = match subject::guarded(|| el.to_serde_struct(&p)) {
                Ok(t) => t,
                Err(_) => continue,
            };
            if let Err((class, msg)) = compare(&base, &text, &d, &p.attribute_prefix, &t) {
                out.push(mk(class, format!("preset {}: {}", name, msg), (&d, prefix, &t, sorted)));
            }
            // Options::derive() builder
            for derive in DERIVES {
                let mut p2 = match name {
                    "quick_xml_de" => Options::quick_xml_de(),
                    _ => Options::serde_xml_rs(),
                }
                .derive(derive);
                p2.sort = if sorted { SortBy::XmlName } else { SortBy::Unsorted };
                renders += 1;
                let text = match subject::guarded(|| el.to_serde_struct(&p2)) {
                    Ok(t) => t,
                    Err(_) => continue,
                };
                if let Err((class, msg)) = compare(&base, &text, derive, &p2.attribute_prefix, &p2.text_identifier) {
                    out.push(mk(class, format!("preset {}.derive({:?}): {}", name, derive, msg), (derive, prefix, &t, sorted)));
                }
            }
        }
    }
    (out, renders)
}

pub fn run(ctx: &Ctx) {
    ctx.set("exhaustive", json!(true));
    let mut renders_c = 0u64;
    let mut trees_c = 0u64;
    // (c) element and attribute names taken from the option strings themselves (items and path segments
    // of every derive string, the text identifiers, the prefixes), as written and in lower case
    let mut words: Vec<String> = Vec::new();
    for d in DERIVES {
        for item in d.split(',') {
            for seg in item.trim().split("::") {
                words.push(seg.to_string());
                words.push(seg.to_lowercase());
            }
        }
    }
    for t in TEXTS.iter().chain(PREFIXES.iter()) {
        let w: String = t.chars().filter(|c| c.is_ascii_alphanumeric() || *c == '_').collect();
        words.push(w);
    }
    words.retain(|w| !w.is_empty());
    words.sort();
    words.dedup();
    let mut option_docs: Vec<String> = Vec::new();
    for w in &words {
        option_docs.push(format!("<{w} k=\"v\"/>", w = w));
        option_docs.push(format!("<r><{w} k=\"v\">t</{w}></r>", w = w));
        option_docs.push(format!("<r {w}=\"v\"><{w}><{w} k=\"v\"/></{w}>t</r>", w = w));
    }
    for (i, xml) in option_docs.iter().enumerate() {
        let d = match DocEntry::from_xml(xml) {
            Ok(d) => d,
            Err(e) => {
                ctx.machinery_error(format!("option-word document {} unreadable: {}", xml, e));
                continue;
            }
        };
        if let Ok(el) = run_history(&[&d]) {
            let (vs, n) = judge(&[&d], &el, (2 << 40) | i as u64);
            ctx.report_all(vs);
            renders_c += n;
            trees_c += 1;
        }
    }
    ctx.set("option_word_documents", json!({"words": words.len(), "documents": option_docs.len()}));
    // (a) plain documents
    let sp = Space::new(plain_cfg(ctx.tier.pick(4, 5)));
    let res = par_for(
        sp.len(),
        ctx.threads,
        64,
        Some(ctx.deadline),
        |_| (0u64, 0u64),
        |acc, i| {
            let d = DocEntry::from_root(sp.get(i));
            if let Ok(el) = run_history(&[&d]) {
                let (vs, n) = judge(&[&d], &el, i);
                ctx.report_all(vs);
                acc.0 += n;
                acc.1 += 1;
            }
            if ctx.sample_hash_qualifies(i) {
                ctx.sample(i, || json!({"document": d.xml, "options": "all 160 tuples + presets"}));
            }
        },
    );
    let mut renders: u64 = res.accs.iter().map(|a| a.0).sum();
    let mut trees: u64 = res.accs.iter().map(|a| a.1).sum();
    if !res.complete {
        ctx.set("exhaustive", json!(false));
    }
    // (b) names for which identifier != bound name (and == bound name) both occur
    let names: Vec<PoolName> = ADV
        .iter()
        .filter(|p| ["a", "b", "type", "Type", "Foo", "a-b", "ns:a", "ns:type", "xmlns:ns", "xmlns", "text", "é", "FOO", "a_type", "foo", "attr_id"].contains(&p.name))
        .cloned()
        .collect();
    let subs = subsets(names.len(), 2);
    let params = TreeParams { min_nodes: 0, max_nodes: 3, max_decorated: ctx.tier.pick(1, 2), root_from_subset: false, shard: (0, 1) };
    let params4 = TreeParams { min_nodes: 4, max_nodes: 4, max_decorated: 0, root_from_subset: false, shard: (0, 1) };
    let res2 = par_for(
        subs.len() as u64 * 2,
        ctx.threads,
        1,
        Some(ctx.deadline),
        |_| (0u64, 0u64),
        |acc, unit| {
            let si = unit / 2;
            let params = if unit % 2 == 0 { &params } else { &params4 };
            let subset: Vec<PoolName> = subs[si as usize].iter().map(|&i| names[i]).collect();
            let mut local = 0u64;
            for_each_tree(&subset, params, &mut |root| {
                local += 1;
                let d = DocEntry::from_root(root.clone());
                if let Ok(el) = run_history(&[&d]) {
                    let (vs, n) = judge(&[&d], &el, (1 << 40) | (si << 20) | local);
                    ctx.report_all(vs);
                    acc.0 += n;
                    acc.1 += 1;
                }
            });
        },
    );
    renders += res2.accs.iter().map(|a| a.0).sum::<u64>();
    trees += res2.accs.iter().map(|a| a.1).sum::<u64>();
    if !res2.complete {
        ctx.set("exhaustive", json!(false));
    }
    ctx.set("evaluations", json!(renders + renders_c));
    ctx.set("distinct_nontrivial", json!(trees + trees_c));
    ctx.set("option_tuples", json!(DERIVES.len() * PREFIXES.len() * TEXTS.len() * 2));
    ctx.set("plain_documents", json!({"space": sp.cfg.describe(), "size": sp.len(), "visited": res.processed}));
    ctx.set("named_trees", json!({"names": names.iter().map(|n| n.name).collect::<Vec<_>>(), "subsets": subs.len(), "subsets_done": res2.processed, "nodes_max": params.max_nodes, "decorated_max": params.max_decorated}));
    ctx.set(
        "rule",
        json!("(c) documents whose element and attribute names are the words of the option strings themselves (derive items and their path segments as written and in lower case, text identifiers, prefixes). for every document: 9 derive strings (incl. a repeated trait, one without spaces, a blank one and one of 120 characters) x 5 attribute prefixes (one of them a leading substring of attribute names) x 4 text identifiers x 2 sort options, plus the two preset constructors and their derive() builder; each rendering is compared with the rendering under the quick-xml preset with the same sort: same structs, field identifiers, types and order; derive line verbatim on every struct or absent when empty; attribute fields bound to prefix + local name, children to their local name, text to the text identifier; no rename equal to the identifier. evaluations = renderings compared, distinct_nontrivial = distinct documents (trees) each rendered under all tuples"),
    );
}

pub fn replay(ctx: &Ctx, case: &Value) {
    let docs = match docs_from_json(case) {
        Ok(d) => d,
        Err(e) => return ctx.machinery_error(e),
    };
    let refs: Vec<&DocEntry> = docs.iter().collect();
    match run_history(&refs) {
        Ok(el) => {
            let (a, _) = judge(&refs, &el, 0);
            let (b, _) = judge(&refs, &el, 0);
            if a.len() != b.len() {
                ctx.machinery_error("replay is not deterministic".into());
            }
            ctx.report_all(a);
        }
        Err(msg) => ctx.machinery_error(format!("history rejected: {}", msg)),
    }
}
