//! C04 — rendered source is well-formed Rust with unique, legal names.
//! Name-adversarial space: every small tree over every small subset of the adversarial pool.

use super::hist::*;
use super::names::*;
use crate::ctx::{fnv, Ctx, Violation};
use crate::par::par_for;
use crate::refmodel::SNode;
use crate::rsast::RStruct;
use crate::subject::{self, Preset};
use crate::wellformed::{check_wellformed, Issue};
use convert_string::ConvertString;
use serde_json::{json, Value};
use std::collections::HashSet;

pub fn pascal(s: &str) -> String {
    s.to_string().to_pascal_case()
}

/// XML-name paths of the positions that get a struct, in the pre-order in which the renderer emits
/// them (first-appearance order, String-typed positions skipped)
pub fn struct_paths(expected: &SNode, root: &str) -> Vec<Vec<String>> {
    fn walk(s: &SNode, path: &mut Vec<String>, out: &mut Vec<Vec<String>>) {
        out.push(path.clone());
        for c in &s.children {
            if c.node.string_typed() {
                continue;
            }
            path.push(c.name.clone());
            walk(&c.node, path, out);
            path.pop();
        }
    }
    let mut out = Vec::new();
    walk(expected, &mut vec![root.to_string()], &mut out);
    out
}

/// all positions (String-typed ones included)
pub fn all_paths(expected: &SNode, root: &str) -> Vec<Vec<String>> {
    fn walk(s: &SNode, path: &mut Vec<String>, out: &mut Vec<Vec<String>>) {
        out.push(path.clone());
        for c in &s.children {
            path.push(c.name.clone());
            walk(&c.node, path, out);
            path.pop();
        }
    }
    let mut out = Vec::new();
    walk(expected, &mut vec![root.to_string()], &mut out);
    out
}

/// computed cause of an issue: the part of the finding class that identifies the root cause
pub fn cause(issue: &Issue, structs: &[RStruct], paths: Option<&[Vec<String>]>) -> String {
    match issue {
        Issue::StructDuplicate { idxs, .. } => {
            let paths = match paths {
                Some(p) if p.len() == structs.len() => p,
                _ => return "positions-unknown".into(),
            };
            let pp: Vec<Vec<String>> = idxs.iter().map(|&i| paths[i].iter().map(|n| pascal(n)).collect()).collect();
            let mut fold = false;
            let mut concat = false;
            for i in 0..idxs.len() {
                for j in i + 1..idxs.len() {
                    if pp[i] == pp[j] {
                        fold = true;
                    } else {
                        concat = true;
                    }
                }
            }
            match (fold, concat) {
                (true, false) => "pascal-fold".into(),
                (false, true) => "concat-ambiguity".into(),
                (true, true) => "pascal-fold+concat-ambiguity".into(),
                _ => "other".into(),
            }
        }
        Issue::StructNameIllegal { name, .. } => {
            if name == "Self" {
                "reserved-Self".into()
            } else if name.is_empty() {
                "empty-name".into()
            } else {
                format!("other:{}", name)
            }
        }
        Issue::StructShadowsStd { name } => name.clone(),
        Issue::FieldIllegal { ident, .. } => {
            if ident == "_" {
                "underscore".into()
            } else {
                "other".into()
            }
        }
        Issue::FieldDuplicate { .. } => "x".into(),
        _ => "x".into(),
    }
}

pub fn judge(docs: &[&DocEntry], text: &str, rank: u64) -> Vec<Violation> {
    let checked = check_wellformed(text);
    if checked.issues.is_empty() {
        return Vec::new();
    }
    let expected = expected_schema(docs);
    let root = docs.iter().find_map(|d| d.root()).map(|r| r.name.clone()).unwrap_or_default();
    let paths = struct_paths(&expected, &root);
    checked
        .issues
        .iter()
        .map(|issue| {
            let c = cause(issue, &checked.structs, Some(&paths));
            Violation {
                class: format!("{}/{}", issue.kind(), c),
                summary: format!(
                    "{} | docs: {}",
                    issue.message(),
                    docs.iter().map(|d| d.xml.as_str()).collect::<Vec<_>>().join(" ++ ")
                ),
                replay: docs_json(docs),
                rank,
            }
        })
        .collect()
}

/// hashes of all renderings checked in this run (across sweeps)
static ALL_RENDERINGS: std::sync::Mutex<Option<HashSet<u64>>> = std::sync::Mutex::new(None);

struct Acc {
    evals: u64,
    seen: HashSet<u64>,
    checked: u64,
}

pub fn sweep(ctx: &Ctx, label: &str, pool: &[PoolName], k: usize, params: &TreeParams, with_split: bool) {
    // the serde-xml-rs preset (no attribute prefix: attribute and child names share one key space)
    // is rendered as well for the sweeps with decorated nodes and the root named from the subset
    let both = ctx.tier == crate::ctx::Tier::Thorough || (params.root_from_subset && params.max_decorated >= 2);
    let presets: &[Preset] = if both { &[Preset::QuickXml, Preset::SerdeXmlRs] } else { &[Preset::QuickXml] };
    let subs = subsets(pool.len(), k);
    let started = std::time::Instant::now();
    let res = par_for(
        subs.len() as u64,
        ctx.threads,
        1,
        Some(ctx.deadline),
        |_| Acc { evals: 0, seen: HashSet::new(), checked: 0 },
        |acc, si| {
            let subset: Vec<PoolName> = subs[si as usize].iter().map(|&i| pool[i]).collect();
            let mut local = 0u64;
            for_each_tree(&subset, params, &mut |root| {
                local += 1;
                let rank = (si << 24) | local.min(0xff_ffff);
                let mut histories: Vec<Vec<DocEntry>> = vec![vec![DocEntry::from_root(root.clone())]];
                if with_split {
                    let nkids = root.children().count();
                    for at in 1..nkids {
                        if let Some((a, b)) = split(root, at) {
                            histories.push(vec![DocEntry::from_root(a), DocEntry::from_root(b)]);
                        }
                    }
                }
                for h in histories {
                    let refs: Vec<&DocEntry> = h.iter().collect();
                    if local % 499 == 0 {
                        if let Err(e) = self_check(refs[0]) {
                            ctx.machinery_error(e);
                        }
                    }
                    acc.evals += 1;
                    match run_history_rendering(&refs) {
                        Ok(el) => {
                            for &preset in presets {
                                let text = match subject::guarded(|| subject::render(&el, preset, false)) {
                                    Ok(t) => t,
                                    Err(p) => {
                                        ctx.report(Violation {
                                            class: "render-panic".into(),
                                            summary: format!("rendering panicked: {} | {}", p, refs[0].xml),
                                            replay: docs_json(&refs),
                                            rank,
                                        });
                                        continue;
                                    }
                                };
                                if acc.seen.insert(fnv(&text)) {
                                    acc.checked += 1;
                                    ctx.report_all(judge(&refs, &text, rank));
                                    if ctx.sample_hash_qualifies(rank) {
                                        ctx.sample(rank, || json!({"docs": refs.iter().map(|d| d.xml.clone()).collect::<Vec<_>>()}));
                                    }
                                }
                            }
                        }
                        Err(msg) => ctx.report(Violation {
                            class: "parse-failed".into(),
                            summary: format!("well-formed document rejected: {} | {}", msg, refs[0].xml),
                            replay: docs_json(&refs),
                            rank,
                        }),
                    }
                }
            });
        },
    );
    let evals: u64 = res.accs.iter().map(|a| a.evals).sum();
    let checked: u64 = res.accs.iter().map(|a| a.checked).sum();
    let mut distinct: HashSet<u64> = HashSet::new();
    for a in res.accs {
        distinct.extend(a.seen);
    }
    ctx.add("evaluations", evals * presets.len() as u64);
    ctx.add("histories", evals);
    ctx.add("renderings_checked_with_syn", checked);
    {
        let mut all = ALL_RENDERINGS.lock().unwrap();
        let set = all.get_or_insert_with(HashSet::new);
        set.extend(distinct.iter().cloned());
        ctx.set("distinct_nontrivial", json!(set.len()));
    }
    ctx.push(
        "sweeps",
        json!({"sweep": label, "wall_s": (started.elapsed().as_secs_f64() * 10.0).round() / 10.0, "pool": pool.len(), "subset_size": k, "subsets": subs.len(), "subsets_done": res.processed,
               "nodes": [params.min_nodes, params.max_nodes], "decorated_nodes_max": params.max_decorated,
               "root_from_subset": params.root_from_subset, "split_into_two_documents": with_split,
               "histories": evals, "distinct_renderings": distinct.len()}),
    );
    if !res.complete {
        ctx.set("exhaustive", json!(false));
        ctx.push("caps", json!(format!("{}: wall budget, {} of {} name subsets", label, res.processed, subs.len())));
    }
}

/// chains r/n1/n2/.../nd with names from the subset, leaf decorated
fn chains(ctx: &Ctx, pool: &[PoolName], max_depth: usize) {
    let subs = subsets(pool.len(), 2);
    let res = par_for(
        subs.len() as u64,
        ctx.threads,
        4,
        Some(ctx.deadline),
        |_| (0u64, HashSet::<u64>::new()),
        |acc, si| {
            let names: Vec<&str> = subs[si as usize].iter().map(|&i| pool[i]).filter(|p| p.element).map(|p| p.name).collect();
            if names.is_empty() {
                return;
            }
            for d in 1..=max_depth {
                for code in 0..(names.len() as u64).pow(d as u32) {
                    for leaf_attr in [false, true] {
                        let mut c = code;
                        let mut chain: Vec<&str> = Vec::new();
                        for _ in 0..d {
                            chain.push(names[(c % names.len() as u64) as usize]);
                            c /= names.len() as u64;
                        }
                        let mut node: Option<crate::dom::Node> = None;
                        for (i, n) in chain.iter().rev().enumerate() {
                            let mut e = crate::dom::Node::new(n);
                            if i == 0 && leaf_attr {
                                e.attrs.push(("k".into(), "v".into()));
                            }
                            if let Some(ch) = node.take() {
                                e.items.push(crate::dom::Item::Elem(ch));
                            }
                            node = Some(e);
                        }
                        let mut root = crate::dom::Node::new("r");
                        root.items.push(crate::dom::Item::Elem(node.unwrap()));
                        let d = DocEntry::from_root(root);
                        let refs = [&d];
                        acc.0 += 1;
                        if let Ok(el) = run_history(&refs) {
                            let text = subject::render(&el, Preset::QuickXml, false);
                            if acc.1.insert(fnv(&text)) {
                                ctx.report_all(judge(&refs, &text, (1 << 60) | si << 20 | code));
                            }
                        }
                    }
                }
            }
        },
    );
    let evals: u64 = res.accs.iter().map(|a| a.0).sum();
    let mut distinct: HashSet<u64> = HashSet::new();
    for a in res.accs {
        distinct.extend(a.1);
    }
    ctx.add("evaluations", evals);
    {
        let mut all = ALL_RENDERINGS.lock().unwrap();
        let set = all.get_or_insert_with(HashSet::new);
        set.extend(distinct.iter().cloned());
        ctx.set("distinct_nontrivial", json!(set.len()));
    }
    ctx.push("sweeps", json!({"sweep": "chains", "max_depth": max_depth, "subsets": subs.len(), "histories": evals, "distinct_renderings": distinct.len()}));
    if !res.complete {
        ctx.set("exhaustive", json!(false));
    }
}

/// nesting chains of depth 1..=120 (one name, two names, with attributes), singly and extended with itself
fn deep_documents(ctx: &Ctx) {
    let chains = deep_chain_docs(120);
    let found = std::sync::atomic::AtomicBool::new(false);
    let res = par_for(
        chains.len() as u64,
        ctx.threads,
        4,
        Some(ctx.deadline),
        |_| 0u64,
        |acc, i| {
            if found.load(std::sync::atomic::Ordering::Relaxed) {
                return; // ascending depth: deeper chains add nothing once a violation is known
            }
            let d = &chains[i as usize];
            for h in [vec![d], vec![d, d]] {
                if let Ok(el) = run_history(&h) {
                    for preset in [Preset::QuickXml, Preset::SerdeXmlRs] {
                        if let Ok(text) = subject::guarded(|| subject::render(&el, preset, false)) {
                            let vs = judge(&h, &text, (1 << 56) | i);
                            if !vs.is_empty() {
                                found.store(true, std::sync::atomic::Ordering::Relaxed);
                            }
                            ctx.report_all(vs);
                            *acc += 1;
                        }
                    }
                }
            }
        },
    );
    let n: u64 = res.accs.iter().sum();
    ctx.add("evaluations", n);
    ctx.push("sweeps", json!({"sweep": "nesting chains", "max_depth": 120, "documents": chains.len(), "renderings": n}));
}

/// plain names, degenerate character data: text, white-space-only text and empty CDATA sections in
/// every position of every document of a small space (all four renderings each)
fn chardata_documents(ctx: &Ctx) {
    let sp = crate::docspace::Space::new(chardata_cfg(ctx.tier.pick(5, 6)));
    let res = par_for(
        sp.len(),
        ctx.threads,
        256,
        Some(ctx.deadline),
        |_| 0u64,
        |acc, i| {
            let d = DocEntry::from_doc(sp.doc(i));
            if let Ok(el) = run_history(&[&d]) {
                for preset in [Preset::QuickXml, Preset::SerdeXmlRs] {
                    for sorted in [false, true] {
                        if let Ok(text) = subject::guarded(|| subject::render(&el, preset, sorted)) {
                            ctx.report_all(judge(&[&d], &text, (1 << 57) | i));
                            *acc += 1;
                        }
                    }
                }
            }
        },
    );
    let n: u64 = res.accs.iter().sum();
    ctx.add("evaluations", n);
    ctx.push("sweeps", json!({"sweep": "degenerate character data over plain names", "space": sp.cfg.describe(), "size": sp.len(), "visited": res.processed, "renderings": n}));
    if !res.complete {
        ctx.set("exhaustive", json!(false));
    }
}

/// names whose PascalCase forms fold onto each other together with names that equal such a form
/// plus a number: a disambiguating suffix can collide with a natural name
pub fn suffix_pool() -> Vec<PoolName> {
    ["a", "A", "a1", "A1", "a_1", "foo", "Foo", "foo1", "r-a1", "r_foo1", "a2"]
        .iter()
        .map(|n| PoolName { name: n, category: "suffix", element: true })
        .collect()
}

/// names that contain a separator next to names that are their parts: any scheme that joins path
/// segments with a separator can confuse `a` / `b.c` with `a.b` / `c`
pub fn separator_sets() -> Vec<Vec<PoolName>> {
    let mut out = Vec::new();
    for sep in [".", "-", "_", ":"] {
        let names: Vec<String> = vec!["a".into(), "b".into(), "c".into(), format!("a{}b", sep), format!("b{}c", sep)];
        // leak: the pool type holds &'static str; a handful of tiny strings per run
        let leaked: Vec<PoolName> = names
            .into_iter()
            .map(|n| PoolName { name: Box::leak(n.into_boxed_str()), category: "separator-path", element: true })
            .collect();
        out.push(leaked);
    }
    out
}

/// two different leaf names whose ancestor-qualified struct names concatenate to the same text:
/// r/a<sep>b/c with r/d/c ("AB"+"C") next to r/a/b<sep>c with r/e/b<sep>c ("A"+"BC")
fn two_level_concat(ctx: &Ctx) {
    let mut n = 0u64;
    for sep in ["_", "-", "."] {
        for decorated in [false, true] {
            let ab = format!("a{}b", sep);
            let bc = format!("b{}c", sep);
            let leaf = |name: &str| {
                let mut l = crate::dom::Node::new(name);
                if decorated {
                    l.attrs.push(("k".into(), "v".into()));
                }
                l
            };
            let parent = |name: &str, child: crate::dom::Node| {
                let mut p = crate::dom::Node::new(name);
                p.items.push(crate::dom::Item::Elem(child));
                p
            };
            let mut root = crate::dom::Node::new("r");
            for p in [parent(&ab, leaf("c")), parent("d", leaf("c")), parent("a", leaf(&bc)), parent("e", leaf(&bc))] {
                root.items.push(crate::dom::Item::Elem(p));
            }
            let d = DocEntry::from_root(root);
            if let Ok(el) = run_history(&[&d]) {
                for preset in [Preset::QuickXml, Preset::SerdeXmlRs] {
                    let text = subject::render(&el, preset, false);
                    ctx.report_all(judge(&[&d], &text, (1 << 58) | n));
                    n += 1;
                }
            }
        }
    }
    ctx.add("evaluations", n);
}

/// case variants and digit suffixes of one name: identifier numbering (`foo`, `foo_1`, `foo2` ...)
pub fn numbering_pool() -> Vec<PoolName> {
    ["foo", "Foo", "FOO", "foo2", "Foo2", "foo_2", "foo1", "foo_1"]
        .iter()
        .map(|n| PoolName { name: n, category: "numbering", element: true })
        .collect()
}

/// names the renderer must not use as struct names (`String`, `Vec`, `Option`, `Self`, `_`) next to
/// the names their numbered replacements would collide with
pub fn protected_pool() -> Vec<PoolName> {
    ["string", "String", "string1", "String1", "vec", "vec1", "Vec-1", "option", "option1", "self", "self1", "_", "__", "_1"]
        .iter()
        .map(|n| PoolName { name: n, category: "protected", element: true })
        .collect()
}

/// Options a caller writes out by hand: text identifiers and attribute prefixes other than the presets'
/// (`$value`, `$type`, `value`, `#text`; `@`, empty, `a_`), over names that meet them (`value`, `type`,
/// `text`, `Value`, `a_value`). The statement of C04 does not restrict the options.
fn custom_options(ctx: &Ctx) {
    use xml_schema_generator::{Options, SortBy};
    let names: Vec<PoolName> = ["value", "type", "text", "Value", "a_value"]
        .iter()
        .map(|n| PoolName { name: n, category: "option-stem", element: true })
        .collect();
    let mut opts: Vec<Options> = Vec::new();
    for ti in ["$value", "$type", "value", "#text"] {
        for ap in ["@", "", "a_"] {
            opts.push(Options { text_identifier: ti.to_string(), attribute_prefix: ap.to_string(), derive: "Serialize, Deserialize".to_string(), sort: SortBy::Unsorted });
        }
    }
    let subs = subsets(names.len(), 2);
    let params = TreeParams { min_nodes: 0, max_nodes: 2, max_decorated: 2, root_from_subset: true, shard: (0, 1) };
    let res = par_for(
        subs.len() as u64,
        ctx.threads,
        1,
        Some(ctx.deadline),
        |_| (0u64, HashSet::<u64>::new()),
        |acc, si| {
            let subset: Vec<PoolName> = subs[si as usize].iter().map(|&i| names[i]).collect();
            let mut local = 0u64;
            for_each_tree(&subset, &params, &mut |root| {
                local += 1;
                let rank = (1 << 57) | (si << 24) | local.min(0xff_ffff);
                let d = DocEntry::from_root(root.clone());
                let el = match run_history(&[&d]) {
                    Ok(el) => el,
                    Err(_) => return,
                };
                for o in &opts {
                    acc.0 += 1;
                    let text = match subject::guarded(|| el.to_serde_struct(o)) {
                        Ok(t) => t,
                        Err(p) => format!("PANIC(render): {}", p),
                    };
                    if acc.1.insert(fnv(&text)) {
                        let mut vs = judge(&[&d], &text, rank);
                        for v in vs.iter_mut() {
                            v.summary = format!("{} | text_identifier={:?} attribute_prefix={:?}", v.summary, o.text_identifier, o.attribute_prefix);
                            v.replay["options"] = json!({"text_identifier": o.text_identifier, "attribute_prefix": o.attribute_prefix});
                        }
                        ctx.report_all(vs);
                    }
                }
            });
        },
    );
    let evals: u64 = res.accs.iter().map(|a| a.0).sum();
    let mut distinct: HashSet<u64> = HashSet::new();
    for a in res.accs {
        distinct.extend(a.1);
    }
    ctx.add("evaluations", evals);
    ctx.set("custom_options", json!({"names": names.iter().map(|p| p.name).collect::<Vec<_>>(), "option_tuples": opts.len(), "renderings": evals, "distinct_renderings": distinct.len()}));
    if !res.complete {
        ctx.set("exhaustive", json!(false));
        ctx.push("caps", json!("custom options: wall budget"));
    }
}

pub fn run(ctx: &Ctx) {
    ctx.set("exhaustive", json!(true));
    let pool = pool(&[]);
    sweep(ctx, "protected-name pool, 2-subsets, <=3 nodes, <=1 decorated, root named from the subset", &protected_pool(), 2,
          &TreeParams { min_nodes: 1, max_nodes: 3, max_decorated: 1, root_from_subset: true, shard: (0, 1) }, true);
    sweep(ctx, "protected-name pool, 3-subsets, <=3 nodes, undecorated, root named from the subset", &protected_pool(), 3,
          &TreeParams { min_nodes: 2, max_nodes: 3, max_decorated: 0, root_from_subset: true, shard: (0, 1) }, true);
    for set in separator_sets() {
        sweep(ctx, &format!("separator-path names {:?}, 4-subsets, <=4 nodes, undecorated", set.iter().map(|p| p.name).collect::<Vec<_>>()), &set, 4,
              &TreeParams { min_nodes: 3, max_nodes: 4, max_decorated: 0, root_from_subset: false, shard: (0, 1) }, true);
        // five nodes: a name at two places (qualified), then an element whose own name equals a qualified one
        sweep(ctx, &format!("separator-path names {:?}, 4-subsets, 5 nodes, undecorated", set.iter().map(|p| p.name).collect::<Vec<_>>()), &set, 4,
              &TreeParams { min_nodes: 5, max_nodes: 5, max_decorated: 0, root_from_subset: false, shard: (0, 1) }, false);
    }
    custom_options(ctx);
    two_level_concat(ctx);
    deep_documents(ctx);
    chardata_documents(ctx);
    sweep(ctx, "numbering pool, 4-subsets, <=4 nodes, <=1 decorated", &numbering_pool(), 4,
          &TreeParams { min_nodes: 2, max_nodes: 4, max_decorated: ctx.tier.pick(0, 1), root_from_subset: false, shard: (0, 1) }, false);
    let concat: Vec<PoolName> = ADV.iter().filter(|p| p.category == "concat").cloned().collect();
    sweep(ctx, "concatenation pool, 3-subsets, <=3 nodes, <=1 decorated, root named from the subset", &concat, 3,
          &TreeParams { min_nodes: 1, max_nodes: 3, max_decorated: 1, root_from_subset: true, shard: (0, 1) }, true);
    sweep(ctx, "concatenation pool, 3-subsets, 4 nodes, undecorated", &concat, 3,
          &TreeParams { min_nodes: 4, max_nodes: 4, max_decorated: 0, root_from_subset: false, shard: (0, 1) }, true);
    sweep(ctx, "suffix-collision pool, 3-subsets, <=4 nodes, undecorated", &suffix_pool(), 3,
          &TreeParams { min_nodes: 2, max_nodes: 4, max_decorated: 0, root_from_subset: false, shard: (0, 1) }, true);
    // the three complete 2-subset sweeps of the quick tier come first in both tiers: when the wall budget
    // of the thorough tier cuts one of its larger sweeps, everything the quick tier covers has still
    // been covered (with both presets in the thorough tier)
    sweep(ctx, "2-subsets, 3 nodes, <=1 decorated", &pool, 2,
          &TreeParams { min_nodes: 3, max_nodes: 3, max_decorated: 1, root_from_subset: false, shard: (0, 1) }, true);
    sweep(ctx, "2-subsets, <=2 nodes, <=2 decorated, root named from the subset", &pool, 2,
          &TreeParams { min_nodes: 0, max_nodes: 2, max_decorated: 2, root_from_subset: true, shard: (0, 1) }, false);
    sweep(ctx, "2-subsets, 4 nodes, undecorated", &pool, 2,
          &TreeParams { min_nodes: 4, max_nodes: 4, max_decorated: 0, root_from_subset: false, shard: (0, 1) }, false);
    match ctx.tier {
        crate::ctx::Tier::Quick => {
            chains(ctx, &pool, 5);
        }
        crate::ctx::Tier::Thorough => {
            chains(ctx, &pool, 7);
            // three distinct pool names at once, smallest trees that can carry them: complete
            sweep(ctx, "3-subsets, 3 nodes, undecorated, root named from the subset", &pool, 3,
                  &TreeParams { min_nodes: 3, max_nodes: 3, max_decorated: 0, root_from_subset: true, shard: (0, 1) }, true);
            sweep(ctx, "3-subsets, 4 nodes, undecorated", &pool, 3,
                  &TreeParams { min_nodes: 4, max_nodes: 4, max_decorated: 0, root_from_subset: false, shard: (0, 1) }, false);
            // the large spaces last: whatever the wall budget cuts is cut here
            sweep(ctx, "3-subsets, <=3 nodes, <=1 decorated", &pool, 3,
                  &TreeParams { min_nodes: 1, max_nodes: 3, max_decorated: 1, root_from_subset: false, shard: (0, 1) }, true);
            sweep(ctx, "2-subsets, <=4 nodes, <=2 decorated", &pool, 2,
                  &TreeParams { min_nodes: 0, max_nodes: 4, max_decorated: 2, root_from_subset: true, shard: (0, 1) }, true);
        }
    }
    ctx.set(
        "rule",
        json!("every ordered tree shape up to the node bound, element names assigned in all ways from every k-subset of the adversarial pool (keywords in several cases, case/separator variants, prefixed, xmlns, concatenations, String/Option/Vec, identifier traps, digits, non-ASCII, `_`), up to the stated number of nodes decorated with text and/or attributes named from the same subset; as one document and split into two (parse + extend); plus chains of one or two names. Each distinct rendering is parsed with syn and with the line grammar; evaluations = renderings produced (histories x presets rendered), distinct_nontrivial = number of distinct rendered texts among them"),
    );
    ctx.assume("identifier legality is decided by syn 2 (`syn::parse_str::<Ident>`), syntax by `syn::parse_file`");
}

pub fn replay(ctx: &Ctx, case: &Value) {
    let docs = match docs_from_json(case) {
        Ok(d) => d,
        Err(e) => return ctx.machinery_error(e),
    };
    let refs: Vec<&DocEntry> = docs.iter().collect();
    let mut seen = Vec::new();
    for _ in 0..2 {
        match run_history(&refs) {
            Ok(el) => {
                let mut classes = Vec::new();
                for preset in [Preset::QuickXml, Preset::SerdeXmlRs] {
                    let text = subject::render(&el, preset, false);
                    let vs = judge(&refs, &text, 0);
                    classes.extend(vs.iter().map(|v| v.class.clone()));
                    ctx.report_all(vs);
                }
                if let Some(o) = case.get("options") {
                    let opt = xml_schema_generator::Options {
                        text_identifier: o["text_identifier"].as_str().unwrap_or("$text").to_string(),
                        attribute_prefix: o["attribute_prefix"].as_str().unwrap_or("@").to_string(),
                        derive: "Serialize, Deserialize".to_string(),
                        sort: xml_schema_generator::SortBy::Unsorted,
                    };
                    let text = subject::guarded(|| el.to_serde_struct(&opt)).unwrap_or_else(|p| format!("PANIC(render): {}", p));
                    let vs = judge(&refs, &text, 0);
                    classes.extend(vs.iter().map(|v| v.class.clone()));
                    ctx.report_all(vs);
                }
                seen.push(classes);
            }
            Err(msg) => return ctx.machinery_error(format!("history rejected: {}", msg)),
        }
    }
    if seen[0] != seen[1] {
        ctx.machinery_error("replay is not deterministic".into());
    }
}
