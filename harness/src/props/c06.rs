//! C06 — extending behaves like inferring from the union (batch equivalence, monotone,
//! idempotent, order-free, element-less inputs are neutral, malformed inputs give Err).

use super::hist::*;
use crate::ctx::{fnv, Ctx, Violation};
use crate::oracle::{check_exact, Binding, Order};
use crate::subject::{self, Preset};
use serde_json::{json, Value};
use std::collections::HashMap;
use std::sync::Mutex;
use xml_schema_generator::Element;

pub fn malformed_events() -> Vec<Event> {
    vec![
        Event::malformed("mismatched end tag", b"<r><a></b></r>"),
        Event::malformed("mismatched end tag after a new child", b"<r><c z=\"1\"/><a></b></r>"),
        Event::malformed("duplicate attribute", b"<r x=\"1\" x=\"2\"/>"),
        Event::malformed("duplicate attribute deep", b"<r><a><b y=\"1\" y=\"2\"/></a></r>"),
        Event::malformed("non-UTF-8 element name", b"<r><\xff/></r>"),
        Event::malformed("non-UTF-8 text after new child", b"<r><c/>\xff</r>"),
        Event::malformed("unclosed comment", b"<r><!--</r>"),
        Event::malformed("unquoted attribute", b"<r><a x=1/></r>"),
        // the defect sits behind a complete root element
        Event::malformed("stray end tag behind the root", b"<r><c/></r></x>"),
        Event::malformed("unclosed comment behind the root", b"<r><a z=\"1\"/></r>\n<!-- tail"),
        Event::malformed("non-UTF-8 bytes behind the root", b"<r><c/></r>\xff"),
        Event::malformed("broken second element behind the root", b"<r/><a x=\"1\" x=\"2\"/>"),
    ]
}

struct OrderTable {
    shards: Vec<Mutex<HashMap<u64, (u64, String)>>>,
}

impl OrderTable {
    fn new() -> OrderTable {
        OrderTable {
            shards: (0..64).map(|_| Mutex::new(HashMap::new())).collect(),
        }
    }
    /// returns the schema key recorded earlier for the same multiset of documents if it differs
    fn record(&self, docs: &[&DocEntry], schema_key: &str) -> Option<String> {
        let mut xs: Vec<&str> = docs.iter().filter(|d| d.root().is_some()).map(|d| d.xml.as_str()).collect();
        xs.sort();
        let set_key = fnv(&xs.join("\u{1}"));
        let sk = fnv(schema_key);
        let mut m = self.shards[(set_key % 64) as usize].lock().unwrap();
        match m.get(&set_key) {
            Some((h, k)) if *h != sk => Some(k.clone()),
            Some(_) => None,
            None => {
                m.insert(set_key, (sk, schema_key.to_string()));
                None
            }
        }
    }
}

fn rendered(el: &Element<String>) -> Option<crate::refmodel::SNode> {
    render_read(el, Preset::QuickXml, false)
        .ok()
        .map(|r| rendered_schema(&r.structs, &r.tree, &Binding::quick_xml()).sorted())
}

fn judge_state(docs: &[&DocEntry], el: &Element<String>, rank: u64, replay: &Value, table: Option<&OrderTable>) -> Vec<Violation> {
    let mut out = Vec::new();
    let mk = |class: String, msg: String| Violation {
        class,
        summary: format!("{} | docs: {}", msg, docs.iter().map(|d| d.xml.as_str()).collect::<Vec<_>>().join(" ++ ")),
        replay: replay.clone(),
        rank,
    };
    let expected = expected_schema(docs);
    let internal = internal_schema(el);
    if let Some((class, msg)) = diff_schema(&expected, &internal, "") {
        out.push(mk(format!("batch/tree/{}", class), format!("extended tree differs from the schema of the union: {}", msg)));
    }
    match render_read(el, Preset::QuickXml, false) {
        Err(e) => out.push(mk("batch/unreadable".into(), e)),
        Ok(r) => {
            if let Err(msg) = check_exact(&expected, &r.structs, &r.tree, &Binding::quick_xml(), Order::Ignore, "") {
                out.push(mk("batch/output".into(), format!("rendering differs from the schema of the union: {}", msg)));
            }
        }
    }
    if let Some(t) = table {
        let key = internal.sorted().key();
        if let Some(other) = t.record(docs, &key) {
            out.push(mk(
                "order-dependence".into(),
                format!("the same documents supplied in another order gave {} but this order gives {}", other, key),
            ));
        }
    }
    out
}

fn judge_transition(t: &Transition, table: Option<&OrderTable>) -> Vec<Violation> {
    let mut out = Vec::new();
    let replay = t.replay_json();
    let mk = |class: &str, msg: String| Violation {
        class: class.to_string(),
        summary: format!(
            "{} | history: {} | event: {}",
            msg,
            t.before.iter().map(|d| d.xml.as_str()).collect::<Vec<_>>().join(" ++ "),
            t.event.label
        ),
        replay: replay.clone(),
        rank: t.rank,
    };
    match (&t.event.entry, t.succ) {
        (None, Some(_)) => out.push(mk("malformed-accepted", "a malformed extension returned Ok (partial result instead of an error)".into())),
        (None, None) => {}
        (Some(_), None) => out.push(mk("extend-failed", "extend_struct rejected a well-formed input".into())),
        (Some(ev), Some(succ)) => {
            let docs = t.all_docs();
            out.extend(judge_state(&docs, succ, t.rank, &replay, table));
            // monotone
            let ps = internal_schema(t.pred);
            let ss = internal_schema(succ);
            if let Err(e) = ss.admits(&ps) {
                out.push(mk("monotone/tree", format!("extension lost information: {}", e)));
            }
            if let (Some(pr), Some(sr)) = (rendered(t.pred), rendered(succ)) {
                if let Err(e) = sr.admits(&pr) {
                    out.push(mk("monotone/output", format!("extension lost information in the rendering: {}", e)));
                }
                // idempotent: a document supplied before changes nothing
                if ev.root().is_some() && t.before.iter().any(|d| d.xml == ev.xml) && (pr != sr || ps.sorted() != ss.sorted()) {
                    out.push(mk("idempotence", "supplying a document a second time changed the schema".into()));
                }
            }
            // element-less inputs are neutral
            if ev.root().is_none() {
                if ps.sorted() != ss.sorted() {
                    out.push(mk("elementless-changes-tree", "an element-less input changed the schema of the tree".into()));
                }
                for sorted in [false, true] {
                    if subject::render(t.pred, Preset::QuickXml, sorted) != subject::render(succ, Preset::QuickXml, sorted) {
                        out.push(mk("elementless-changes-output", "an element-less input changed the rendering".into()));
                    }
                }
            }
        }
    }
    out
}

pub fn run(ctx: &Ctx) {
    ctx.set("exhaustive", json!(true));
    let searches: Vec<(usize, usize)> = ctx.tier.pick(vec![(2, 4), (3, 1)], vec![(2, 8), (3, 2)]);
    let mut malformed_seen = 0u64;
    for (aw, depth) in searches {
        let alphabet = materialise(history_cfg(aw));
        let mut events: Vec<Event> = alphabet.iter().cloned().map(Event::doc).collect();
        events.extend(elementless().into_iter().map(Event::doc));
        events.extend(malformed_events());
        let table = OrderTable::new();
        let judge_t = |t: &Transition| ctx.report_all(judge_transition(t, Some(&table)));
        let judge_i = |d: &DocEntry, el: &Element<String>, i: u64| {
            ctx.report_all(judge_state(&[d], el, i, &docs_json(&[d]), Some(&table)))
        };
        let search = ExtendSearch {
            ctx,
            init_docs: &alphabet,
            events: &events,
            depth,
            state_cap: ctx.tier.pick(400_000, 1_500_000),
            audit_cap: ctx.tier.pick(2_000, 20_000),
            judge_init: &judge_i,
            judge: &judge_t,
        };
        let stats = search.run();
        malformed_seen += malformed_events().len() as u64;
        record_bfs(ctx, &format!("extend over documents of weight <= {} + element-less + malformed inputs", aw), &stats, events.len(), depth);
        let sets: usize = table.shards.iter().map(|s| s.lock().unwrap().len()).sum();
        ctx.add("distinct_document_multisets", sets as u64);
    }
    names_part(ctx);
    variants_part(ctx);
    families(ctx);
    // the reference's own laws, exhaustively on the small alphabet: join is commutative and idempotent and agrees with batch inference
    let alphabet = materialise(plain_cfg(2));
    let mut law_checks = 0u64;
    for a in alphabet.iter() {
        for b in alphabet.iter() {
            let sa = expected_schema(&[a]);
            let sb = expected_schema(&[b]);
            let batch = expected_schema(&[a, b]).sorted();
            let j1 = crate::refmodel::join(&sa, &sb).sorted();
            let j2 = crate::refmodel::join(&sb, &sa).sorted();
            law_checks += 1;
            if j1 != j2 || j1 != batch || expected_schema(&[b, a]).sorted() != batch {
                ctx.machinery_error(format!("reference model is not a join: `{}` / `{}`", a.xml, b.xml));
            }
        }
        if crate::refmodel::join(&expected_schema(&[a]), &expected_schema(&[a])).sorted() != expected_schema(&[a]).sorted() {
            ctx.machinery_error(format!("reference join is not idempotent on `{}`", a.xml));
        }
    }
    ctx.set("reference_law_checks", json!(law_checks));
    ctx.set("malformed_event_kinds", json!(malformed_seen));
    ctx.set(
        "rule",
        json!("breadth-first search over extend_struct from into_struct(d) for every d of the alphabet; events = every document of the alphabet, four element-less inputs and twelve malformed inputs (four of them with the defect behind a complete root element). Checked on every transition: schema of the successor = reference schema of the set of documents supplied (batch equivalence, tree and rendering); successor admits predecessor (no field lost, no Option->required, no Vec->single); re-supplying a document changes nothing; element-less inputs leave tree and bytes unchanged; one schema per multiset of documents whatever the order (table keyed by the multiset); malformed inputs return Err"),
    );
}

pub fn replay(ctx: &Ctx, case: &Value) {
    let docs = match docs_from_json(case) {
        Ok(d) => d,
        Err(e) => return ctx.machinery_error(e),
    };
    if docs.is_empty() {
        return ctx.machinery_error("empty replay case".into());
    }
    let malformed = case.get("malformed_event").and_then(|m| m.as_str()).map(unhex);
    let mut classes = Vec::new();
    for _ in 0..2 {
        let mut run_classes = Vec::new();
        // replay step by step so that transition invariants are evaluated for every step
        let first = &docs[0];
        let mut el = match run_history(&[first]) {
            Ok(e) => e,
            Err(m) => return ctx.machinery_error(format!("first document rejected: {}", m)),
        };
        let mut before: Vec<&DocEntry> = vec![first];
        let mut evs: Vec<Event> = docs[1..].iter().cloned().map(Event::doc).collect();
        if let Some(m) = &malformed {
            evs.push(Event::malformed(case.get("label").and_then(|l| l.as_str()).unwrap_or("malformed"), m));
        }
        for ev in evs.iter() {
            let succ = match subject::guarded(|| subject::extend(el.clone(), &ev.bytes)) {
                Ok(Ok(e)) => Some(e),
                _ => None,
            };
            let t = Transition { pred: &el, before: before.clone(), event: ev, succ: succ.as_ref(), rank: 0 };
            let vs = judge_transition(&t, None);
            run_classes.extend(vs.iter().map(|v| v.class.clone()));
            ctx.report_all(vs);
            match succ {
                Some(s) => {
                    el = s;
                    if let Some(e) = &ev.entry {
                        before.push(e);
                    }
                }
                None => break,
            }
        }
        classes.push(run_classes);
    }
    if classes[0] != classes[1] {
        ctx.machinery_error("replay is not deterministic".into());
    }
    // order dependence needs the permutations of the same documents
    let table = OrderTable::new();
    let rooted: Vec<&DocEntry> = docs.iter().collect();
    if rooted.len() <= 6 {
        let idx: Vec<usize> = (0..rooted.len()).collect();
        for p in crate::docspace::permutations(&idx) {
            let order: Vec<&DocEntry> = p.iter().map(|&i| rooted[i]).collect();
            if order[0].root().is_none() {
                continue;
            }
            if let Ok(el) = run_history(&order) {
                ctx.report_all(judge_state(&order, &el, 0, case, Some(&table)));
            }
        }
    }
}

/// adversarial names: a tree split into two documents, supplied in both orders and with the first
/// document supplied again at the end; every step is judged like a transition of the search
fn names_part(ctx: &Ctx) {
    use super::names::*;
    let pool = pool(&["degenerate"]);
    let subs = subsets(pool.len(), 2);
    let params = TreeParams { min_nodes: 2, max_nodes: 3, max_decorated: 1, root_from_subset: false, shard: (0, 1) };
    let res = crate::par::par_for(
        subs.len() as u64,
        ctx.threads,
        1,
        Some(ctx.deadline),
        |_| 0u64,
        |acc, si| {
            let subset: Vec<PoolName> = subs[si as usize].iter().map(|&i| pool[i]).collect();
            for_each_tree(&subset, &params, &mut |root| {
                if !prefix_clash_free(root) {
                    return;
                }
                for at in 1..root.children().count() {
                    let (a, b) = match split(root, at) {
                        Some(x) => x,
                        None => continue,
                    };
                    let (a, b) = (DocEntry::from_root(a), DocEntry::from_root(b));
                    let table = OrderTable::new();
                    for order in [vec![&a, &b, &a], vec![&b, &a, &b]] {
                        let mut el = match run_history(&[order[0]]) {
                            Ok(e) => e,
                            Err(_) => continue,
                        };
                        let mut before: Vec<&DocEntry> = vec![order[0]];
                        for d in &order[1..] {
                            let ev = Event::doc((*d).clone());
                            let succ = match subject::guarded(|| subject::extend(el.clone(), &ev.bytes)) {
                                Ok(Ok(e)) => Some(e),
                                _ => None,
                            };
                            let t = Transition { pred: &el, before: before.clone(), event: &ev, succ: succ.as_ref(), rank: (1 << 50) | si };
                            *acc += 1;
                            ctx.report_all(judge_transition(&t, Some(&table)));
                            match succ {
                                Some(s) => {
                                    el = s;
                                    before.push(d);
                                }
                                None => break,
                            }
                        }
                    }
                }
            });
        },
    );
    let evals: u64 = res.accs.iter().sum();
    ctx.add("transitions", evals);
    ctx.add("traces_validated_against_impl", evals);
    ctx.set("named_trees", json!({"pool": pool.len(), "subsets": subs.len(), "subsets_done": res.processed, "nodes_max": params.max_nodes, "transitions": evals}));
    if !res.complete {
        ctx.set("exhaustive", json!(false));
        ctx.push("caps", json!("wall or memory budget reached in the part `named trees`: see its done / total counters"));
    }
}

/// an input that breaks off with an I/O error of the given kind after `good` has been delivered
struct FailingReader<'a> {
    good: &'a [u8],
    pos: usize,
    kind: std::io::ErrorKind,
}

impl<'a> std::io::Read for FailingReader<'a> {
    fn read(&mut self, buf: &mut [u8]) -> std::io::Result<usize> {
        use std::io::BufRead;
        let n = {
            let a = self.fill_buf()?;
            let n = a.len().min(buf.len());
            buf[..n].copy_from_slice(&a[..n]);
            n
        };
        self.consume(n);
        Ok(n)
    }
}

impl<'a> std::io::BufRead for FailingReader<'a> {
    fn fill_buf(&mut self) -> std::io::Result<&[u8]> {
        if self.pos >= self.good.len() {
            return Err(std::io::Error::new(self.kind, "injected I/O error"));
        }
        Ok(&self.good[self.pos..])
    }
    fn consume(&mut self, amt: usize) {
        self.pos += amt;
    }
}

/// further families: histories [d, d, e] over a structure-only space with three element names,
/// documents with hundreds of occurrences supplied twice, and extensions whose reader fails
/// the second document of a history in other spellings of the same structure: cut off before its
/// trailing end tags (the library accepts input that ends inside open elements), wrapped in a prolog /
/// epilog (declaration, DOCTYPE, comments, processing instructions); and all ordered pairs over an
/// attribute-heavy space (two element names carrying the same attribute names)
fn variants_part(ctx: &Ctx) {
    use crate::docspace::{Space, SpaceCfg};
    let alphabet = materialise(history_cfg(2));
    let truncated = |d: &DocEntry| -> Option<DocEntry> {
        let mut x = d.xml.as_str();
        loop {
            let t = x;
            if t.ends_with('>') && !t.ends_with("/>") {
                if let Some(pos) = t.rfind("</") {
                    if !t[pos..].contains(' ') && t[pos + 2..t.len() - 1].chars().all(|c| c.is_alphanumeric() || ":_-.".contains(c)) {
                        x = &t[..pos];
                        continue;
                    }
                }
            }
            break;
        }
        if x.len() == d.xml.len() || !x.contains('<') {
            None
        } else {
            Some(DocEntry { xml: x.to_string(), doc: d.doc.clone() })
        }
    };
    let wrappers = super::c11::wrappers();
    let step = |el: &Element<String>, before: &[&DocEntry], d: &DocEntry, rank: u64| -> bool {
        let ev = Event::doc(d.clone());
        let succ = match subject::guarded(|| subject::extend(el.clone(), &ev.bytes)) {
            Ok(Ok(e)) => Some(e),
            _ => None,
        };
        let t = Transition { pred: el, before: before.to_vec(), event: &ev, succ: succ.as_ref(), rank };
        ctx.report_all(judge_transition(&t, None));
        succ.is_some()
    };
    let n = alphabet.len() as u64;
    let res = crate::par::par_for(
        n * n,
        ctx.threads,
        16,
        Some(ctx.deadline),
        |_| 0u64,
        |acc, idx| {
            let a = &alphabet[(idx / n) as usize];
            let b = &alphabet[(idx % n) as usize];
            let rank = (1 << 53) | idx;
            let el0 = match run_history(&[a]) {
                Ok(e) => e,
                Err(_) => return,
            };
            if let Some(bt) = truncated(b) {
                if step(&el0, &[a], &bt, rank) {
                    *acc += 1;
                }
                // ... and a complete document after a truncated one
                if let Some(at) = truncated(a) {
                    if let Ok(el_t) = run_history(&[&at]) {
                        if step(&el_t, &[&at], b, rank) {
                            *acc += 1;
                        }
                    }
                }
            }
            if (idx / n) % 5 == 0 {
                for (p, e) in &wrappers {
                    let doc = crate::dom::Doc { prolog: p.clone(), root: b.doc.root.clone(), epilog: e.clone() };
                    let w = DocEntry::from_doc(doc);
                    if step(&el0, &[a], &w, rank) {
                        *acc += 1;
                    }
                }
            }
        },
    );
    let mut transitions: u64 = res.accs.iter().sum();
    let sp = Space::new(SpaceCfg {
        root: "r".into(),
        enames: vec!["a".into(), "b".into()],
        anames: vec!["x".into(), "y".into()],
        attr_seq: false,
        max_attrs: 2,
        depth: 2,
        kinds: vec![],
        both_empty: false,
        root_attrs: false,
        max_weight: ctx.tier.pick(5, 6),
    });
    let docs: Vec<DocEntry> = (0..sp.len()).map(|i| DocEntry::from_root(sp.get(i))).collect();
    let m = docs.len() as u64;
    let res2 = crate::par::par_for(
        m * m,
        ctx.threads,
        64,
        Some(ctx.deadline),
        |_| 0u64,
        |acc, idx| {
            let a = &docs[(idx / m) as usize];
            let b = &docs[(idx % m) as usize];
            if let Ok(el0) = run_history(&[a]) {
                if step(&el0, &[a], b, (1 << 54) | idx) {
                    *acc += 1;
                }
            }
        },
    );
    transitions += res2.accs.iter().sum::<u64>();
    // character data in its degenerate forms (text, white-space-only text, empty CDATA sections): every
    // ordered pair of documents, and the pair followed by the first document again
    let cd: Vec<DocEntry> = materialise(chardata_cfg(3));
    let c = cd.len() as u64;
    let res3 = crate::par::par_for(
        c * c,
        ctx.threads,
        64,
        Some(ctx.deadline),
        |_| 0u64,
        |acc, idx| {
            let a = &cd[(idx / c) as usize];
            let b = &cd[(idx % c) as usize];
            let rank = (1 << 55) | idx;
            if let Ok(el0) = run_history(&[a]) {
                if step(&el0, &[a], b, rank) {
                    *acc += 1;
                    if let Ok(el1) = run_history(&[a, b]) {
                        if step(&el1, &[a, b], a, rank) {
                            *acc += 1;
                        }
                    }
                }
            }
        },
    );
    transitions += res3.accs.iter().sum::<u64>();
    ctx.add("transitions", transitions);
    ctx.set(
        "document_variants",
        json!({"chardata_documents": c, "chardata_pairs": res3.processed, "pairs_over_alphabet": res.processed, "wrappers": wrappers.len(), "attribute_heavy_space": sp.cfg.describe(), "attribute_heavy_documents": m, "attribute_heavy_pairs": res2.processed, "transitions": transitions}),
    );
    if !res.complete || !res2.complete || !res3.complete {
        ctx.set("exhaustive", json!(false));
        ctx.push("caps", json!("wall or memory budget reached in the part `document variants`: see its done / total counters"));
    }
}

fn families(ctx: &Ctx) {
    use crate::docspace::{Space, SpaceCfg};
    let sp = Space::new(SpaceCfg {
        root: "r".into(),
        enames: vec!["a".into(), "b".into(), "c".into()],
        anames: vec![],
        attr_seq: false,
        max_attrs: 0,
        depth: 3,
        kinds: vec![],
        both_empty: false,
        root_attrs: false,
        max_weight: ctx.tier.pick(4, 5),
    });
    let nd = sp.len_upto(ctx.tier.pick(3, 4));
    let docs: Vec<DocEntry> = (0..sp.len()).map(|i| DocEntry::from_root(sp.get(i))).collect();
    let table = OrderTable::new();
    let step = |el: &Element<String>, before: &[&DocEntry], d: &DocEntry, rank: u64| -> Option<Element<String>> {
        let ev = Event::doc(d.clone());
        let succ = match subject::guarded(|| subject::extend(el.clone(), &ev.bytes)) {
            Ok(Ok(e)) => Some(e),
            _ => None,
        };
        let t = Transition { pred: el, before: before.to_vec(), event: &ev, succ: succ.as_ref(), rank };
        ctx.report_all(judge_transition(&t, Some(&table)));
        succ
    };
    let n = docs.len() as u64;
    let res = crate::par::par_for(
        nd * n,
        ctx.threads,
        64,
        Some(ctx.deadline),
        |_| 0u64,
        |acc, idx| {
            let d = &docs[(idx / n) as usize];
            let e = &docs[(idx % n) as usize];
            let rank = (1 << 51) | idx;
            if let Ok(el0) = run_history(&[d]) {
                if let Some(el1) = step(&el0, &[d], d, rank) {
                    if step(&el1, &[d, d], e, rank).is_some() {
                        *acc += 2;
                    }
                }
            }
        },
    );
    let mut transitions: u64 = res.accs.iter().sum();
    // many occurrences, supplied twice and followed by a short document
    let many = many_occurrence_docs(ctx.tier.pick(1100, 70_000));
    let short = DocEntry::from_xml("<r><a><b/></a></r>").expect("doc");
    let res2 = crate::par::par_for(
        many.len() as u64,
        ctx.threads,
        1,
        Some(ctx.deadline),
        |_| 0u64,
        |acc, i| {
            let d = &many[i as usize];
            let rank = (1 << 52) | i;
            if let Ok(el0) = run_history(&[d]) {
                if let Some(el1) = step(&el0, &[d], d, rank) {
                    if step(&el1, &[d, d], &short, rank).is_some() {
                        *acc += 2;
                    }
                }
            }
        },
    );
    transitions += res2.accs.iter().sum::<u64>();
    // an extension whose reader breaks off with an I/O error must return Err, whatever the kind
    let base = run_history(&[&short]).ok();
    if let Some(base) = base {
        for kind in [std::io::ErrorKind::Other, std::io::ErrorKind::UnexpectedEof, std::io::ErrorKind::BrokenPipe, std::io::ErrorKind::InvalidData] {
            for good in ["<r><c/><a>", "<r><a><b/></a><c", "<r>", ""] {
                let r = subject::guarded(|| subject::extend_reader(base.clone(), FailingReader { good: good.as_bytes(), pos: 0, kind }, &subject::RCfg::default()));
                transitions += 1;
                if let Ok(Ok(_)) = r {
                    ctx.report(Violation {
                        class: "io-error-accepted".into(),
                        summary: format!("extend_struct returned Ok although the reader failed with {:?} after `{}` (partial result instead of an error)", kind, good),
                        replay: json!({"docs": [short.xml], "io_error_after": good, "kind": format!("{:?}", kind)}),
                        rank: 0,
                    });
                }
            }
        }
    }
    ctx.add("transitions", transitions);
    ctx.add("traces_validated_against_impl", transitions);
    ctx.set("families", json!({"three_name_documents": docs.len(), "histories_d_d_e": nd * n, "many_occurrence_documents": many.len(), "io_error_extensions": 16}));
    if !res.complete || !res2.complete {
        ctx.set("exhaustive", json!(false));
        ctx.push("caps", json!("wall or memory budget reached in the part `families`: see its done / total counters"));
    }
}
