//! C15 — public list merge: union, conjunction of necessity, stable order.
//! Space: every ordered pair of duplicate-free tagged lists over an alphabet of n items.

use crate::ctx::{Ctx, Violation};
use crate::par::par_for;
use serde_json::{json, Value};
use xml_schema_generator::{merge_necessity, Necessity};

type Tagged = Vec<(bool, u8)>; // (mandatory, item)

fn all_lists(n: u8) -> Vec<Tagged> {
    fn rec(n: u8, cur: &mut Tagged, out: &mut Vec<Tagged>) {
        out.push(cur.clone());
        for item in 0..n {
            if cur.iter().any(|(_, i)| *i == item) {
                continue;
            }
            for m in [true, false] {
                cur.push((m, item));
                rec(n, cur, out);
                cur.pop();
            }
        }
    }
    let mut out = Vec::new();
    rec(n, &mut Vec::new(), &mut out);
    out.sort_by_key(|l| l.len());
    out
}

fn to_nec<T>(l: &Tagged, f: impl Fn(u8) -> T) -> Vec<Necessity<T>> {
    l.iter()
        .map(|(m, i)| {
            if *m {
                Necessity::Mandatory(f(*i))
            } else {
                Necessity::Optional(f(*i))
            }
        })
        .collect()
}

fn from_nec<T>(l: &[Necessity<T>], f: impl Fn(&T) -> u8) -> Tagged {
    l.iter()
        .map(|n| (matches!(n, Necessity::Mandatory(_)), f(n.inner_t())))
        .collect()
}

/// the statement, clause by clause; returns the name of the first clause that fails
fn judge(a: &Tagged, b: &Tagged, r: &Tagged) -> Result<(), (&'static str, String)> {
    for (i, (_, x)) in r.iter().enumerate() {
        if r.iter().skip(i + 1).any(|(_, y)| x == y) {
            return Err(("duplicate-item", format!("item {} occurs twice", x)));
        }
    }
    for (_, x) in a.iter().chain(b.iter()) {
        if !r.iter().any(|(_, y)| x == y) {
            return Err(("item-lost", format!("item {} is missing", x)));
        }
    }
    for (_, y) in r.iter() {
        if !a.iter().chain(b.iter()).any(|(_, x)| x == y) {
            return Err(("item-invented", format!("item {} is in neither list", y)));
        }
    }
    for (m, y) in r.iter() {
        let in_a = a.iter().find(|(_, x)| x == y);
        let in_b = b.iter().find(|(_, x)| x == y);
        let both = matches!((in_a, in_b), (Some((true, _)), Some((true, _))));
        if *m != both {
            return Err((
                "necessity",
                format!(
                    "item {} is {} but is {}mandatory in both lists",
                    y,
                    if *m { "mandatory" } else { "optional" },
                    if both { "" } else { "not " }
                ),
            ));
        }
    }
    let head: Vec<u8> = r.iter().take(a.len()).map(|(_, y)| *y).collect();
    let a_items: Vec<u8> = a.iter().map(|(_, x)| *x).collect();
    if head != a_items {
        return Err((
            "first-list-order",
            format!("result starts with {:?}, first list is {:?}", head, a_items),
        ));
    }
    let tail: Vec<u8> = r.iter().skip(a.len()).map(|(_, y)| *y).collect();
    let new: Vec<u8> = b
        .iter()
        .map(|(_, x)| *x)
        .filter(|x| !a_items.contains(x))
        .collect();
    if tail != new {
        return Err((
            "new-items-order",
            format!(
                "items only in the second list come out as {:?}, their order there is {:?}",
                tail, new
            ),
        ));
    }
    Ok(())
}

fn show(l: &Tagged) -> Value {
    Value::Array(
        l.iter()
            .map(|(m, i)| json!([if *m { "M" } else { "O" }, i]))
            .collect(),
    )
}

fn parse_list(v: &Value) -> Tagged {
    v.as_array()
        .map(|a| {
            a.iter()
                .map(|e| (e[0].as_str() == Some("M"), e[1].as_u64().unwrap_or(0) as u8))
                .collect()
        })
        .unwrap_or_default()
}

fn check_pair(a: &Tagged, b: &Tagged, rank: u64) -> Vec<Violation> {
    let mut out = Vec::new();
    let r_u8 = from_nec(&merge_necessity(to_nec(a, |i| i), to_nec(b, |i| i)), |i| *i);
    let name = |i: u8| format!("item{}", i);
    let r_str = from_nec(
        &merge_necessity(to_nec(a, name), to_nec(b, name)),
        |s: &String| s[4..].parse().unwrap_or(255),
    );
    for (ty, r) in [("u8", &r_u8), ("String", &r_str)] {
        if let Err((clause, msg)) = judge(a, b, r) {
            out.push(Violation {
                class: clause.to_string(),
                summary: format!(
                    "merge_necessity({}, {}) = {} [{}]: {}",
                    show(a),
                    show(b),
                    show(r),
                    ty,
                    msg
                ),
                replay: json!({"a": show(a), "b": show(b), "item_type": ty}),
                rank,
            });
        }
    }
    out
}

pub fn run(ctx: &Ctx) {
    // (alphabet size, maximal list length)
    let configs: Vec<(u8, usize)> = ctx.tier.pick(vec![(5, 5)], vec![(5, 5), (6, 5)]);
    let mut evaluations = 0u64;
    let mut nontrivial = 0u64;
    let mut complete = true;
    let mut spaces = Vec::new();
    for (n, max_len) in configs {
        let lists: Vec<Tagged> = all_lists(n)
            .into_iter()
            .filter(|l| l.len() <= max_len)
            .collect();
        let total = (lists.len() * lists.len()) as u64;
        let res = par_for(
            total,
            ctx.threads,
            4096,
            Some(ctx.deadline),
            |_| 0u64,
            |acc, idx| {
                let a = &lists[(idx / lists.len() as u64) as usize];
                let b = &lists[(idx % lists.len() as u64) as usize];
                // pairs already covered by an earlier configuration are skipped
                if n == 6 && !a.iter().chain(b.iter()).any(|(_, x)| *x == 5) {
                    return;
                }
                let vs = check_pair(a, b, idx);
                ctx.report_all(vs);
                // non-trivial: the lists share an item, the first has an item of its own and
                // the second brings at least two new items
                let shares = a.iter().any(|(_, x)| b.iter().any(|(_, y)| x == y));
                let a_own = a.iter().any(|(_, x)| !b.iter().any(|(_, y)| x == y));
                let b_new = b
                    .iter()
                    .filter(|(_, y)| !a.iter().any(|(_, x)| x == y))
                    .count();
                if shares && a_own && b_new >= 2 {
                    *acc += 1;
                }
                if ctx.sample_hash_qualifies(idx) {
                    ctx.sample(idx, || json!({"a": show(a), "b": show(b)}));
                }
            },
        );
        evaluations += res.processed * 2;
        nontrivial += res.accs.iter().sum::<u64>();
        complete &= res.complete;
        spaces.push(json!({"items": n, "max_list_length": max_len, "lists": lists.len(), "pairs": total, "pairs_done": res.processed}));
    }
    // long lists (6..=12 items): a structured family, enumerated completely: first list ascending
    // with a tag pattern; second list over the same items (or one removed / two added) ascending,
    // descending or rotated, with a tag pattern. Patterns: all mandatory, all optional, exactly one
    // optional at position i, exactly one mandatory at position i
    let patterns = |n: usize| -> Vec<Vec<bool>> {
        let mut v = vec![vec![true; n], vec![false; n]];
        for i in 0..n {
            let mut a = vec![true; n];
            a[i] = false;
            v.push(a);
            let mut b = vec![false; n];
            b[i] = true;
            v.push(b);
        }
        v
    };
    let mut long_pairs: Vec<(Tagged, Tagged)> = Vec::new();
    for n in (6..=12usize).chain([16, 31, 32, 33, 34, 40, 64, 65]) {
        let base: Vec<u8> = (0..n as u8).collect();
        let firsts: Vec<Tagged> = patterns(n).into_iter().map(|p| p.into_iter().zip(base.iter().cloned()).collect()).collect();
        let mut item_sets: Vec<Vec<u8>> = vec![base.clone(), base[..n - 1].to_vec()];
        let mut plus = base.clone();
        plus.push(n as u8);
        plus.push(n as u8 + 1);
        item_sets.push(plus);
        let mut seconds: Vec<Tagged> = Vec::new();
        for items in item_sets {
            let mut orders: Vec<Vec<u8>> = vec![items.clone(), items.iter().rev().cloned().collect()];
            let rotations: Vec<usize> = if n <= 12 { (1..items.len()).collect() } else { vec![1, items.len() / 2, items.len() - 1] };
            for k in rotations {
                let mut r = items.clone();
                r.rotate_left(k);
                orders.push(r);
            }
            for o in orders {
                for p in patterns(o.len()) {
                    seconds.push(p.into_iter().zip(o.iter().cloned()).collect());
                }
            }
        }
        for a in &firsts {
            for b in &seconds {
                long_pairs.push((a.clone(), b.clone()));
            }
        }
    }
    let res = par_for(
        long_pairs.len() as u64,
        ctx.threads,
        256,
        Some(ctx.deadline),
        |_| 0u64,
        |acc, i| {
            let (a, b) = &long_pairs[i as usize];
            ctx.report_all(check_pair(a, b, (1 << 50) | i));
            *acc += 1;
        },
    );
    evaluations += res.processed * 2;
    complete &= res.complete;
    spaces.push(json!({"family": "long lists, 6..=12 items (and 16, 31..34, 40, 64, 65 with three rotations), tag patterns x orders (ascending / descending / rotations) x item sets (same / one removed / two added)", "pairs": long_pairs.len(), "pairs_done": res.processed}));
    ctx.set("evaluations", json!(evaluations));
    ctx.set("distinct_nontrivial", json!(nontrivial));
    ctx.set(
        "rule",
        json!("every ordered pair of duplicate-free tagged lists over the alphabets in `spaces`, merged once with u8 items and once with String items (pairs are distinct by construction; the 6-item space only evaluates pairs that use the sixth item); non-trivial = the lists share an item, the first has an item of its own and the second brings at least two new items"),
    );
    ctx.set("spaces", json!(spaces));
    ctx.set("exhaustive", json!(complete));
    if !complete {
        ctx.set("cap", json!("wall budget reached; see pairs_done per space"));
    }
}

pub fn replay(ctx: &Ctx, case: &Value) {
    let a = parse_list(&case["a"]);
    let b = parse_list(&case["b"]);
    let v1 = check_pair(&a, &b, 0);
    let v2 = check_pair(&a, &b, 0);
    if v1.len() != v2.len() {
        ctx.machinery_error("replay is not deterministic".into());
    }
    ctx.report_all(v1);
}
