pub mod c01;
pub mod c02;
pub mod c03;
pub mod c04;
pub mod c05;
pub mod c06;
pub mod c07;
pub mod c08;
pub mod c09;
pub mod c10;
pub mod c11;
pub mod c12;
pub mod c13;
pub mod c14;
pub mod c15;
pub mod c16;
pub mod hist;
pub mod names;

use crate::ctx::{Ctx, Tier};
use serde_json::Value;

struct Entry {
    id: &'static str,
    level: &'static str,
    /// wall budget of the engines in seconds (quick, thorough)
    budget: (u64, u64),
    run: fn(&Ctx),
    replay: fn(&Ctx, &Value),
}

macro_rules! entry {
    ($id:expr, $level:expr, $q:expr, $t:expr, $m:ident) => {
        Entry {
            id: $id,
            level: $level,
            budget: ($q, $t),
            run: $m::run,
            replay: $m::replay,
        }
    };
}

const TABLE: &[Entry] = &[
    entry!("C01", "model_checking", 110, 1500, c01),
    entry!("C02", "exploration", 120, 3000, c02),
    entry!("C03", "model_checking", 110, 1500, c03),
    entry!("C04", "exploration", 110, 1500, c04),
    entry!("C05", "model_checking", 110, 1500, c05),
    entry!("C06", "model_checking", 110, 1500, c06),
    entry!("C07", "exploration", 110, 1500, c07),
    entry!("C08", "exploration", 110, 1500, c08),
    entry!("C09", "model_checking", 110, 1500, c09),
    entry!("C10", "exploration", 110, 1500, c10),
    entry!("C11", "exploration", 110, 1500, c11),
    entry!("C12", "fault_enumeration", 110, 600, c12),
    entry!("C13", "exploration", 120, 3000, c13),
    entry!("C14", "exploration", 110, 1500, c14),
    entry!("C15", "exploration", 110, 900, c15),
    entry!("C16", "model_checking", 110, 1500, c16),
];

pub fn dispatch(prop: &str, tier: Tier, replay: Option<&str>) -> i32 {
    let e = match TABLE.iter().find(|e| e.id == prop) {
        Some(e) => e,
        None => {
            eprintln!("unknown property {}", prop);
            return 2;
        }
    };
    let budget = match tier {
        Tier::Quick => e.budget.0,
        Tier::Thorough => e.budget.1,
    };
    let mut ctx = Ctx::new(e.id, e.level, tier, budget);
    match replay {
        Some(path) => {
            ctx.replaying = true;
            let text = match std::fs::read_to_string(path) {
                Ok(t) => t,
                Err(err) => {
                    eprintln!("cannot read {}: {}", path, err);
                    return 2;
                }
            };
            let v: Value = match serde_json::from_str(&text) {
                Ok(v) => v,
                Err(err) => {
                    eprintln!("{} is not JSON: {}", path, err);
                    return 2;
                }
            };
            let case = v.get("case").cloned().unwrap_or(v);
            (e.replay)(&ctx, &case);
            let code = ctx.finish();
            if code == 0 {
                println!("REPLAY property={} no violation", prop);
            }
            code
        }
        None => {
            (e.run)(&ctx);
            ctx.finish()
        }
    }
}
