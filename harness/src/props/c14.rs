//! C14 — struct names are readable: own name, qualified by nearest ancestors only when needed.

use super::c04::{all_paths, pascal, struct_paths};
use super::hist::*;
use super::names::*;
use crate::ctx::{fnv, Ctx, Violation};
use crate::par::par_for;
use crate::oracle::Binding;
use crate::refmodel::SNode;
use crate::rsast::{read_structs, resolve, RStruct, RTree};
use crate::subject::{self, Preset};
use serde_json::{json, Value};
use std::collections::HashSet;

fn strip_suffix_digits(s: &str) -> Vec<&str> {
    // candidates for the name without a disambiguating suffix (`\d+` or `_\d+`), the name itself first
    let mut out = vec![s];
    let trimmed = s.trim_end_matches(|c: char| c.is_ascii_digit());
    if trimmed.len() < s.len() {
        // every split point inside the trailing digit run is a possible suffix start
        for i in trimmed.len()..s.len() {
            out.push(&s[..i]);
        }
        if let Some(t) = trimmed.strip_suffix('_') {
            out.push(t);
        }
    }
    out
}

/// the rule of the statement for one struct
fn judge_name(name: &str, path: &[String], unique_own_name: bool, first: bool) -> Result<(), (&'static str, String)> {
    let p: Vec<String> = path.iter().map(|n| pascal(n)).collect();
    let k = p.len() - 1;
    let mut matched_j: Option<usize> = None;
    'outer: for cand in strip_suffix_digits(name) {
        for j in 0..=k {
            let want: String = p[k - j..].concat();
            if cand == want {
                matched_j = Some(j);
                break 'outer;
            }
        }
    }
    let j = match matched_j {
        Some(j) => j,
        None => {
            return Err((
                "not-an-ancestor-chain",
                format!(
                    "struct `{}` for /{} is not the PascalCase name of the element preceded by its nearest ancestors (PascalCase path {:?})",
                    name,
                    path.join("/"),
                    p
                ),
            ))
        }
    };
    if first && j != 0 {
        return Err(("root-qualified", format!("the first struct `{}` is not the root element's own name", name)));
    }
    if unique_own_name && j != 0 {
        return Err((
            "needless-qualification",
            format!(
                "struct `{}` for /{}: `{}` occurs at a single position of the tree but is qualified with {} ancestor(s)",
                name,
                path.join("/"),
                p[k],
                j
            ),
        ));
    }
    Ok(())
}

/// pair every struct with the XML path of its position by following the resolved struct tree and
/// the serde names of the struct-typed fields (robust against any emission order). `None` when
/// the rendering and the reference schema do not have the same shape (that is C03's business)
fn pair_positions(expected: &SNode, root: &str, structs: &[RStruct], tree: &RTree) -> Option<Vec<(usize, Vec<String>)>> {
    fn walk(e: &SNode, path: &mut Vec<String>, structs: &[RStruct], t: &RTree, b: &Binding, out: &mut Vec<(usize, Vec<String>)>) -> Option<()> {
        out.push((t.idx, path.clone()));
        let mut used: Vec<usize> = Vec::new();
        let mut kids: Vec<&(usize, RTree)> = t.kids.iter().collect();
        kids.sort_by_key(|(fi, _)| *fi);
        for (fi, sub) in kids {
            let f = &structs[t.idx].fields[*fi];
            let ci = e
                .children
                .iter()
                .enumerate()
                .position(|(ci, c)| !used.contains(&ci) && !c.node.string_typed() && b.child_bound(&c.name) == f.bound())?;
            used.push(ci);
            path.push(e.children[ci].name.clone());
            walk(&e.children[ci].node, path, structs, sub, b, out)?;
            path.pop();
        }
        // every non-String child position must have been paired
        if e.children.iter().enumerate().any(|(ci, c)| !c.node.string_typed() && !used.contains(&ci)) {
            return None;
        }
        Some(())
    }
    let mut out = Vec::new();
    walk(expected, &mut vec![root.to_string()], structs, tree, &Binding::quick_xml(), &mut out)?;
    Some(out)
}

pub fn judge(docs: &[&DocEntry], rendering: &str, rank: u64) -> Vec<Violation> {
    let mut out = Vec::new();
    let mk = |class: &str, msg: String| Violation {
        class: class.to_string(),
        summary: format!("{} | docs: {}", msg, docs.iter().map(|d| d.xml.as_str()).collect::<Vec<_>>().join(" ++ ")),
        replay: docs_json(docs),
        rank,
    };
    let structs = match read_structs(rendering) {
        Ok(s) => s,
        Err(e) => return vec![mk("unreadable", e)],
    };
    let expected = expected_schema(docs);
    let root = docs.iter().find_map(|d| d.root()).map(|r| r.name.clone()).unwrap_or_default();
    // without a pairing of structs and positions nothing can be said about names; a rendering whose
    // shape differs from the reference schema is C03's / C04's business, not a naming violation
    let tree = match resolve(&structs) {
        Ok(t) => t,
        Err(_) => return Vec::new(),
    };
    let paired = match pair_positions(&expected, &root, &structs, &tree) {
        Some(p) => p,
        None => return Vec::new(),
    };
    if structs.is_empty() || paired.iter().all(|(i, _)| *i != 0) {
        return Vec::new();
    }
    let every = all_paths(&expected, &root);
    for (i, path) in paired.iter().map(|(i, p)| (*i, p)) {
        let st = &structs[i];
        let own = pascal(path.last().unwrap());
        let occurrences = every.iter().filter(|p| pascal(p.last().unwrap()) == own).count();
        if own.is_empty() {
            continue; // an element without any alphanumeric character has no PascalCase form to speak of
        }
        if let Err((class, msg)) = judge_name(&st.name, path, occurrences == 1, i == 0) {
            out.push(mk(class, msg));
        }
    }
    out
}

fn sweep(ctx: &Ctx, label: &str, names: &[PoolName], k: usize, params: &TreeParams) {
    let subs = subsets(names.len(), k);
    let shards: u64 = if subs.len() < 64 { 64 } else { 1 };
    let res = par_for(
        subs.len() as u64 * shards,
        ctx.threads,
        1,
        Some(ctx.deadline),
        |_| (0u64, HashSet::<u64>::new(), HashSet::<u64>::new()),
        |acc, unit| {
            let si = unit / shards;
            let subset: Vec<PoolName> = subs[si as usize].iter().map(|&i| names[i]).collect();
            let mut local = 0u64;
            let params = &TreeParams { shard: (unit % shards, shards), ..params.clone() };
            for_each_tree(&subset, params, &mut |root| {
                local += 1;
                let rank = (si << 24) | local.min(0xff_ffff);
                let mut histories: Vec<Vec<DocEntry>> = vec![vec![DocEntry::from_root(root.clone())]];
                let nkids = root.children().count();
                for at in 1..nkids {
                    if let Some((a, b)) = split(root, at) {
                        histories.push(vec![DocEntry::from_root(a), DocEntry::from_root(b)]);
                    }
                }
                for h in histories {
                    let refs: Vec<&DocEntry> = h.iter().collect();
                    acc.0 += 1;
                    if let Ok(el) = run_history_rendering(&refs) {
                        // a rendering that panics is C07's business; nothing can be said about names then
                        let text = match subject::guarded(|| subject::render(&el, Preset::QuickXml, false)) {
                            Ok(t) => t,
                            Err(_) => continue,
                        };
                        if acc.1.insert(fnv(&text)) {
                            let vs = judge(&refs, &text, rank);
                            ctx.report_all(vs);
                            // non-trivial: some struct name is qualified
                            if let Ok(structs) = read_structs(&text) {
                                let e = expected_schema(&refs);
                                let paths = struct_paths(&e, &refs[0].root().map(|r| r.name.clone()).unwrap_or_default());
                                if structs.iter().zip(paths.iter()).any(|(s, p)| s.name != pascal(p.last().unwrap())) {
                                    acc.2.insert(fnv(&text));
                                }
                            }
                            if ctx.sample_hash_qualifies(rank) {
                                ctx.sample(rank, || json!({"docs": refs.iter().map(|d| d.xml.clone()).collect::<Vec<_>>()}));
                            }
                        }
                    }
                }
            });
        },
    );
    let evals: u64 = res.accs.iter().map(|a| a.0).sum();
    let mut distinct: HashSet<u64> = HashSet::new();
    let mut qual: HashSet<u64> = HashSet::new();
    for a in res.accs {
        distinct.extend(a.1);
        qual.extend(a.2);
    }
    let qualified = qual.len() as u64;
    ctx.add("evaluations", evals);
    ctx.add("distinct_nontrivial", qualified);
    ctx.add("distinct_renderings", distinct.len() as u64);
    ctx.push("sweeps", json!({"sweep": label, "names": names.iter().map(|n| n.name).collect::<Vec<_>>(), "subset_size": k, "subsets": subs.len(),
        "units_done": res.processed, "units": subs.len() as u64 * shards, "nodes": [params.min_nodes, params.max_nodes], "decorated_nodes_max": params.max_decorated,
        "histories": evals, "distinct_renderings": distinct.len(), "renderings_with_a_qualified_name": qualified}));
    if !res.complete {
        ctx.set("exhaustive", json!(false));
        ctx.push("caps", json!(format!("{}: wall budget, {} of {} subsets", label, res.processed, subs.len())));
    }
}

pub fn run(ctx: &Ctx) {
    ctx.set("exhaustive", json!(true));
    let plain: Vec<PoolName> = ["a", "b", "c"].iter().map(|n| PoolName { name: n, category: "plain", element: true }).collect();
    let concat: Vec<PoolName> = ADV.iter().filter(|p| p.category == "concat").cloned().collect();
    let adv = pool(&["degenerate"]);
    let nodes = ctx.tier.pick(5, 6);
    sweep(ctx, "names {a,b,c}, all assignments", &plain, 3, &TreeParams { min_nodes: 0, max_nodes: nodes, max_decorated: 1, root_from_subset: true, shard: (0, 1) });
    sweep(ctx, "names {a,b,c}, 6 nodes, undecorated, root r", &plain, 3, &TreeParams { min_nodes: 6, max_nodes: 6, max_decorated: 0, root_from_subset: false, shard: (0, 1) });
    sweep(ctx, "concatenation names", &concat, 3, &TreeParams { min_nodes: 1, max_nodes: 4, max_decorated: 1, root_from_subset: false, shard: (0, 1) });
    sweep(ctx, "concatenation names, 4-subsets", &concat, 4, &TreeParams { min_nodes: 3, max_nodes: 5, max_decorated: 0, root_from_subset: false, shard: (0, 1) });
    for set in super::c04::separator_sets() {
        sweep(ctx, "separator-path names", &set, 4, &TreeParams { min_nodes: 3, max_nodes: 4, max_decorated: 0, root_from_subset: false, shard: (0, 1) });
    }
    sweep(ctx, "adversarial pool, 2-subsets", &adv, 2, &TreeParams { min_nodes: 1, max_nodes: ctx.tier.pick(3, 4), max_decorated: 1, root_from_subset: false, shard: (0, 1) });
    sweep(ctx, "adversarial pool, 2-subsets, 4 nodes, undecorated", &adv, 2, &TreeParams { min_nodes: 4, max_nodes: 4, max_decorated: 0, root_from_subset: false, shard: (0, 1) });
    deep_chains(ctx);
    ctx.set(
        "rule",
        json!("every ordered tree shape up to the node bound with every assignment of names (same name under different parents, at different depths, under itself, next to unique names), at most one node decorated with text/attributes (so that some positions are String-typed and have no struct), as one document and split into two. Oracle per struct, its path recovered from the DOM reference in emission order: name = concatenated PascalCase names of the element and its j nearest ancestors (any j), optionally followed by a numeric suffix; j = 0 for the first struct and for every element whose PascalCase name occurs at a single position (String-typed positions count). Histories of two documents are rendered after the first step as well (a rendering must not influence a later one). Plus chains of depth 1..150 (distinct names per level; two alternating names; one name). distinct_nontrivial = distinct renderings in which at least one struct name is qualified or suffixed"),
    );
    ctx.assume("PascalCase form = convert_string 0.2.0 `to_pascal_case` (the crate the library uses), called directly by the harness");
}

pub fn replay(ctx: &Ctx, case: &Value) {
    let docs = match docs_from_json(case) {
        Ok(d) => d,
        Err(e) => return ctx.machinery_error(e),
    };
    let refs: Vec<&DocEntry> = docs.iter().collect();
    let mut seen = Vec::new();
    for _ in 0..2 {
        match run_history(&refs) {
            Ok(el) => {
                let text = subject::render(&el, Preset::QuickXml, false);
                let vs = judge(&refs, &text, 0);
                seen.push(vs.iter().map(|v| v.class.clone()).collect::<Vec<_>>());
                ctx.report_all(vs);
            }
            Err(msg) => return ctx.machinery_error(format!("history rejected: {}", msg)),
        }
    }
    if seen[0] != seen[1] {
        ctx.machinery_error("replay is not deterministic".into());
    }
}

/// nesting chains up to depth 150: every level a name of its own, two alternating names, one name
fn deep_chains(ctx: &Ctx) {
    let max_depth = 150u64;
    // depths are visited in ascending order; once a depth shows a violation the deeper ones are
    // skipped (a naming defect that grows with depth can make very deep renderings huge)
    let found = std::sync::atomic::AtomicBool::new(false);
    let res = par_for(
        max_depth * 3,
        ctx.threads,
        1,
        Some(ctx.deadline),
        |_| 0u64,
        |acc, i| {
            if found.load(std::sync::atomic::Ordering::Relaxed) {
                return;
            }
            let depth = (i / 3 + 1) as usize;
            let name = |level: usize| match i % 3 {
                0 => format!("e{}", level),
                1 => (if level % 2 == 0 { "a" } else { "b" }).to_string(),
                _ => "a".to_string(),
            };
            let mut node: Option<crate::dom::Node> = None;
            for level in (0..depth).rev() {
                let mut e = crate::dom::Node::new(&name(level));
                if level + 1 == depth {
                    e.attrs.push(("k".into(), "v".into()));
                }
                if let Some(ch) = node.take() {
                    e.items.push(crate::dom::Item::Elem(ch));
                }
                node = Some(e);
            }
            let d = DocEntry::from_root(node.unwrap());
            let refs = [&d];
            *acc += 1;
            if let Ok(el) = run_history(&refs) {
                if let Ok(text) = subject::guarded(|| subject::render(&el, Preset::QuickXml, false)) {
                    let vs = judge(&refs, &text, (1 << 55) | i);
                    if !vs.is_empty() {
                        found.store(true, std::sync::atomic::Ordering::Relaxed);
                    }
                    ctx.report_all(vs);
                }
            }
        },
    );
    ctx.add("evaluations", res.accs.iter().sum::<u64>());
    ctx.set("deep_chains", json!({"max_depth": max_depth, "templates": 3, "done": res.processed}));
    if !res.complete {
        ctx.set("exhaustive", json!(false));
    }
}
