//! C12 — the command-line program is the library plus a header, and fails cleanly.
//! Finite product inputs x flags x output targets, every combination run on the real binary.

use crate::ctx::{Ctx, Violation};
use crate::par::par_for;
use crate::subject;
use serde_json::{json, Value};
use std::path::{Path, PathBuf};
use std::process::Command;
use xml_schema_generator::{Options, SortBy};

#[derive(Clone, Debug)]
enum Input {
    File(String, Vec<u8>),
    /// the content arrives through a pipe: the program is given the path /dev/stdin
    Pipe(String, Vec<u8>),
    Missing,
    Directory,
}

fn s(x: &str) -> String {
    x.to_string()
}

/// further valid inputs: every document of a small space and one document per pool name
fn more_valid_inputs() -> Vec<Input> {
    let mut out = Vec::new();
    for (i, d) in super::hist::materialise(super::hist::plain_cfg(2)).into_iter().enumerate() {
        out.push(Input::File(format!("space-w2-{}", i), d.xml.into_bytes()));
    }
    for p in super::names::ADV.iter().filter(|p| p.element) {
        let xml = format!("<r {n}=\"v\"><{n} k=\"v\"><{n}>t</{n}></{n}><b/></r>", n = p.name);
        out.push(Input::File(format!("name-{}", p.name), xml.into_bytes()));
    }
    out
}

/// the complete 1-edit neighbourhood of one small valid document (valid and invalid files alike)
fn edited_inputs() -> Vec<Input> {
    use crate::bytespace::{Edits, InputSpace};
    let e = Edits::new(
        vec![
            b"<a x=\"1\"><b/>t</a>\n".to_vec(),
            "<дом атр=\"зн\">текст текст<эл/>ещё</дом>\n".as_bytes().to_vec(),
        ],
        false,
    );
    (0..e.len()).map(|i| Input::File(format!("edit-{}", i), e.get(i))).collect()
}

fn inputs() -> Vec<Input> {
    vec![
        Input::File(s("valid-small"), b"<a b=\"c\">d</a>".to_vec()),
        Input::File(s("valid-nested"), b"<r z=\"1\" a=\"2\"><y><k/></y><b n=\"1\"/><b/><y/></r>\n".to_vec()),
        Input::File(s("valid-prolog"), b"<?xml version=\"1.0\" encoding=\"UTF-8\"?>\n<!DOCTYPE r>\n<!-- c -->\n<r><a>t</a></r>\n<!-- end -->\n".to_vec()),
        Input::File(s("valid-non-ascii"), "<каталог имя=\"ж\"><é>t</é></каталог>".as_bytes().to_vec()),
        Input::File(s("valid-keywords"), b"<self type=\"x\"><type/><Foo/><foo/></self>".to_vec()),
        Input::File(s("empty-file"), Vec::new()),
        Input::File(s("text-only"), b"just text\n".to_vec()),
        Input::File(s("mismatched-tag"), b"<a><b></a>".to_vec()),
        Input::File(s("duplicate-attribute"), b"<a x=\"1\" x=\"2\"/>".to_vec()),
        Input::File(s("truncated-comment"), b"<a><!-- </a>".to_vec()),
        Input::File(s("non-utf8"), b"<a>\xff\xfe</a>".to_vec()),
        Input::File(s("non-utf8-name"), b"<a><\xff/></a>".to_vec()),
        Input::File(s("non-utf8-attribute-value"), b"<a title=\"Stra\xdfe\"><b/></a>".to_vec()),
        Input::File(s("non-utf8-comment"), b"<a><!-- \xe9 --><b/></a>".to_vec()),
        Input::File(s("valid-depth-300"), {
            let mut x = String::new();
            for i in 0..300 {
                x.push_str(&format!("<n{}>", i % 7));
            }
            x.push_str("<leaf k=\"v\">t</leaf>");
            for i in (0..300).rev() {
                x.push_str(&format!("</n{}>", i % 7));
            }
            x.into_bytes()
        }),
        // well-formed XML in UTF-16 with a byte order mark: not UTF-8, so the input is at fault
        Input::File(s("utf16-le-with-bom"), {
            let mut b = vec![0xFF, 0xFE];
            for u in "<a b=\"c\">d</a>".encode_utf16() {
                b.extend_from_slice(&u.to_le_bytes());
            }
            b
        }),
        Input::File(s("utf16-be-with-bom"), {
            let mut b = vec![0xFE, 0xFF];
            for u in "<a><b/></a>".encode_utf16() {
                b.extend_from_slice(&u.to_be_bytes());
            }
            b
        }),
        // the same program with unusual (but ordinary) input paths; see file_name_of
        Input::File(s("valid-comma-in-path"), b"<cars y=\"2024\"><car id=\"1\"/><car/></cars>".to_vec()),
        Input::File(s("valid-non-ascii-path"), b"<r><a>t</a></r>".to_vec()),
        Input::File(s("malformed-comma-in-path"), b"<cars><car></cars>".to_vec()),
        Input::Pipe(s("valid-through-pipe"), b"<r z=\"1\"><b n=\"1\"/><b/>t</r>\n".to_vec()),
        Input::Pipe(s("malformed-through-pipe"), b"<r><b></r>".to_vec()),
        Input::Missing,
        Input::Directory,
    ]
}

const PARSERS: &[Option<&str>] = &[None, Some("quick-xml-de"), Some("serde-xml-rs")];
const DERIVES: &[Option<&str>] = &[None, Some("Debug"), Some(""), Some("Clone, Debug"), Some("Debug,Clone"), Some(" Debug , Clone,"), Some("serde::Serialize, ::core::fmt::Debug, PartialEq<Self>")];
const SORTS: &[Option<&str>] = &[None, Some("unsorted"), Some("name")];
const OUTPUTS: &[&str] = &["stdout", "new-file", "existing-file", "missing-directory", "is-directory", "existing-file-same-length", "file-named-dash", "existing-empty-file", "dev-null", "long-file-name", "symlink-to-existing-file", "directory-named-like-output-plus-tmp", "the-input-file-itself", "symlink-to-the-input-file"];
const HEADER: &str = "use serde::{Deserialize, Serialize};\n\n";
/// longer than any rendering of the inputs, so that a missing truncation shows
const OLD_CONTENT: &[u8] = &[b'/'; 6000];

/// path of the input file relative to the case directory
fn file_name_of(i: &Input) -> &'static str {
    match i {
        Input::File(n, _) if n.ends_with("comma-in-path") => "export, v2/cars,2024 =a.xml,b.xml",
        Input::File(n, _) if n.ends_with("non-ascii-path") => "donn\u{e9}es \u{6570}/\u{444}\u{430}\u{439}\u{43b}.xml",
        _ => "input.xml",
    }
}

fn name_of(i: &Input) -> String {
    match i {
        Input::File(n, _) | Input::Pipe(n, _) => n.clone(),
        Input::Missing => "missing-path".into(),
        Input::Directory => "input-is-a-directory".into(),
    }
}

/// what the library renders for this input and these flags (None = the input is at fault)
fn expected_text(input: &Input, parser: Option<&str>, derive: Option<&str>, sort: Option<&str>) -> Option<String> {
    let bytes = match input {
        Input::File(_, b) | Input::Pipe(_, b) => b,
        _ => return None,
    };
    let text = String::from_utf8(bytes.clone()).ok()?;
    let el = subject::parse(text.as_bytes()).ok()?;
    let mut o = match parser {
        Some("serde-xml-rs") => Options::serde_xml_rs(),
        _ => Options::quick_xml_de(),
    };
    o = o.derive(derive.unwrap_or("Serialize, Deserialize"));
    o.sort = match sort {
        Some("name") => SortBy::XmlName,
        _ => SortBy::Unsorted,
    };
    let rendered = subject::guarded(|| el.to_serde_struct(&o)).ok()?;
    Some(format!("{}{}", HEADER, rendered))
}

fn binary(ctx: &Ctx) -> PathBuf {
    PathBuf::from(format!("{}/target/repo-bin/debug/xml_schema_generator", ctx.verif_dir))
}

struct Case {
    input: usize,
    parser: usize,
    derive: usize,
    sort: usize,
    output: usize,
}

fn decode(mut i: u64, n_inputs: usize) -> Case {
    let output = (i % OUTPUTS.len() as u64) as usize;
    i /= OUTPUTS.len() as u64;
    let sort = (i % SORTS.len() as u64) as usize;
    i /= SORTS.len() as u64;
    let derive = (i % DERIVES.len() as u64) as usize;
    i /= DERIVES.len() as u64;
    let parser = (i % PARSERS.len() as u64) as usize;
    i /= PARSERS.len() as u64;
    Case { input: (i as usize) % n_inputs, parser, derive, sort, output }
}

/// bits 40.. of a case index select how the same command line is spelled
const SPELLING_SHIFT: u32 = 40;
const SPELLINGS: &[&str] = &[
    "long options with separate values before the paths",
    "short options with attached values after the paths",
    "long options with = before the paths",
    "short options with separate values between the two paths",
];

fn run_case(ctx: &Ctx, bin: &Path, all: &[Input], idx: u64, work: &Path) -> Vec<Violation> {
    let spelling = (idx >> SPELLING_SHIFT) as usize;
    let c = decode(idx & ((1 << SPELLING_SHIFT) - 1), all.len());
    let input = &all[c.input];
    let dir = work.join(format!("case{}", idx));
    let _ = std::fs::remove_dir_all(&dir);
    if let Err(e) = std::fs::create_dir_all(&dir) {
        ctx.machinery_error(format!("cannot create {}: {}", dir.display(), e));
        return Vec::new();
    }
    let in_path = dir.join(file_name_of(input));
    match input {
        Input::File(_, b) => {
            if let Some(parent) = in_path.parent() {
                let _ = std::fs::create_dir_all(parent);
            }
            if let Err(e) = std::fs::write(&in_path, b) {
                ctx.machinery_error(format!("cannot write input: {}", e));
            }
        }
        Input::Pipe(..) | Input::Missing => {}
        Input::Directory => {
            let _ = std::fs::create_dir_all(&in_path);
        }
    }
    let mut cmd = Command::new(bin);
    cmd.current_dir(&dir).env_remove("RUST_LOG");
    let flags: Vec<(&str, &str, &str)> = [("--parser", "-p", PARSERS[c.parser]), ("--derive", "-d", DERIVES[c.derive]), ("--sort", "-s", SORTS[c.sort])]
        .iter()
        .filter_map(|(l, sh, v)| v.map(|v| (*l, *sh, v)))
        .collect();
    let mut before: Vec<String> = Vec::new();
    let mut between: Vec<String> = Vec::new();
    let mut after: Vec<String> = Vec::new();
    for (long, short, v) in &flags {
        match spelling {
            0 => {
                before.push(long.to_string());
                before.push(v.to_string());
            }
            1 if !v.is_empty() => after.push(format!("{}{}", short, v)),
            1 => {
                after.push(short.to_string());
                after.push(v.to_string());
            }
            2 => before.push(format!("{}={}", long, v)),
            _ => {
                between.push(short.to_string());
                between.push(v.to_string());
            }
        }
    }
    cmd.args(&before);
    match input {
        Input::Pipe(..) => {
            cmd.arg("/dev/stdin");
            cmd.stdin(std::process::Stdio::piped());
        }
        _ => {
            cmd.arg(&in_path);
        }
    }
    cmd.args(&between);
    let out_path: Option<PathBuf> = match OUTPUTS[c.output] {
        "stdout" => None,
        "new-file" => Some(dir.join("out.rs")),
        "existing-file" => {
            let p = dir.join("out.rs");
            let _ = std::fs::write(&p, OLD_CONTENT);
            // an old mtime, so that any rewrite is visible
            let _ = Command::new("touch").args(["-d", "2001-01-01 00:00:00"]).arg(&p).status();
            Some(p)
        }
        "file-named-dash" => Some(PathBuf::from("-")),
        "dev-null" => Some(PathBuf::from("/dev/null")),
        "existing-empty-file" => {
            let p = dir.join("out.rs");
            let _ = std::fs::write(&p, b"");
            let _ = Command::new("touch").args(["-d", "2001-01-01 00:00:00"]).arg(&p).status();
            Some(p)
        }
        "existing-file-same-length" => {
            // an existing file of exactly the length of the expected output, with other content
            let p = dir.join("out.rs");
            let len = expected_text(input, PARSERS[c.parser], DERIVES[c.derive], SORTS[c.sort]).map(|t| t.len()).unwrap_or(OLD_CONTENT.len());
            let _ = std::fs::write(&p, vec![b'#'; len]);
            let _ = Command::new("touch").args(["-d", "2001-01-01 00:00:00"]).arg(&p).status();
            Some(p)
        }
        "long-file-name" => Some(dir.join(format!("{}.rs", "o".repeat(250)))),
        "symlink-to-existing-file" => {
            let real = dir.join("real.rs");
            let _ = std::fs::write(&real, OLD_CONTENT);
            let _ = Command::new("touch").args(["-d", "2001-01-01 00:00:00"]).arg(&real).status();
            let p = dir.join("out.rs");
            let _ = std::os::unix::fs::symlink("real.rs", &p);
            Some(p)
        }
        "directory-named-like-output-plus-tmp" => {
            let _ = std::fs::create_dir_all(dir.join("out.rs.tmp"));
            Some(dir.join("out.rs"))
        }
        // the output names the file the input was read from (directly / through a symbolic link): the
        // program reads the whole input before it creates the output, so the file is replaced
        "the-input-file-itself" => match input {
            Input::File(..) => Some(in_path.clone()),
            _ => Some(dir.join("out.rs")),
        },
        "symlink-to-the-input-file" => match input {
            Input::File(..) => {
                let p = dir.join("out.rs");
                let _ = std::os::unix::fs::symlink(&in_path, &p);
                Some(p)
            }
            _ => Some(dir.join("out.rs")),
        },
        "missing-directory" => Some(dir.join("no/such/dir/out.rs")),
        _ => {
            let p = dir.join("outdir");
            let _ = std::fs::create_dir_all(&p);
            Some(p)
        }
    };
    if let Some(p) = &out_path {
        cmd.arg(p);
    }
    cmd.args(&after);
    let mtime_before = out_path.as_ref().and_then(|p| std::fs::metadata(p).ok()).and_then(|m| m.modified().ok());
    cmd.stdout(std::process::Stdio::piped()).stderr(std::process::Stdio::piped());
    let output = match cmd.spawn().and_then(|mut child| {
        if let Input::Pipe(_, bytes) = input {
            use std::io::Write;
            if let Some(mut si) = child.stdin.take() {
                let _ = si.write_all(bytes);
            }
        }
        child.wait_with_output()
    }) {
        Ok(o) => o,
        Err(e) => {
            ctx.machinery_error(format!("cannot run {}: {}", bin.display(), e));
            return Vec::new();
        }
    };
    let want = expected_text(input, PARSERS[c.parser], DERIVES[c.derive], SORTS[c.sort]);
    let label = format!(
        "input={} parser={:?} derive={:?} sort={:?} output={}{}",
        name_of(input), PARSERS[c.parser], DERIVES[c.derive], SORTS[c.sort], OUTPUTS[c.output],
        if spelling == 0 { String::new() } else { format!(" [{}]", SPELLINGS[spelling.min(SPELLINGS.len() - 1)]) }
    );
    let mut vs = Vec::new();
    let mut bad = |class: &str, msg: String| {
        vs.push(Violation {
            class: class.to_string(),
            summary: format!("{}: {}", label, msg),
            replay: json!({"index": idx}),
            rank: idx,
        })
    };
    let code = output.status.code();
    let stdout = output.stdout.clone();
    let creatable = matches!(OUTPUTS[c.output], "stdout" | "new-file" | "existing-file" | "existing-file-same-length" | "file-named-dash" | "existing-empty-file" | "dev-null" | "long-file-name" | "symlink-to-existing-file" | "directory-named-like-output-plus-tmp" | "the-input-file-itself" | "symlink-to-the-input-file");
    match (&want, creatable) {
        (Some(text), true) => {
            if code != Some(0) {
                bad("exit-status", format!("exit status {:?} instead of 0; stderr: {}", code, String::from_utf8_lossy(&output.stderr)));
            }
            match &out_path {
                None => {
                    let expect = format!("{}\n", text);
                    if stdout != expect.as_bytes() {
                        bad("stdout-content", format!("stdout is {:?} but should be {:?}", String::from_utf8_lossy(&stdout), expect));
                    }
                }
                Some(p) => {
                    if !stdout.is_empty() {
                        bad("stdout-not-empty", format!("stdout should stay empty when an output file is named, got {:?}", String::from_utf8_lossy(&stdout)));
                    }
                    let p = &dir.join(p);
                    match std::fs::read(p) {
                        _ if OUTPUTS[c.output] == "dev-null" => {}
                        Ok(b) if b == text.as_bytes() => {}
                        Ok(b) => bad("file-content", format!("output file holds {:?} but should hold {:?}", String::from_utf8_lossy(&b), text)),
                        Err(e) => bad("file-content", format!("output file unreadable: {}", e)),
                    }
                    if OUTPUTS[c.output] == "symlink-to-existing-file" {
                        let still_link = std::fs::symlink_metadata(p).map(|m| m.file_type().is_symlink()).unwrap_or(false);
                        let real = std::fs::read(dir.join("real.rs")).unwrap_or_default();
                        if !still_link || real != text.as_bytes() {
                            bad("file-content", "the output path is a symbolic link to an existing file: the link must stay and the file it names must receive the output".into());
                        }
                    }
                    if OUTPUTS[c.output] == "directory-named-like-output-plus-tmp" && !dir.join("out.rs.tmp").is_dir() {
                        bad("file-content", "an unrelated directory next to the output file was removed or replaced".into());
                    }
                }
            }
        }
        _ => {
            // input at fault and/or output cannot be created
            if code != Some(1) {
                bad("exit-status", format!("exit status {:?} instead of 1", code));
            }
            if !stdout.is_empty() {
                bad("stdout-not-empty", format!("a failing run printed {:?} on stdout", String::from_utf8_lossy(&stdout)));
            }
            if output.stderr.is_empty() {
                bad("no-diagnostic", "a failing run printed nothing on stderr".into());
            }
            if want.is_none() {
                match OUTPUTS[c.output] {
                    "the-input-file-itself" | "symlink-to-the-input-file" if matches!(input, Input::File(..)) => {
                        if let Input::File(_, b) = input {
                            if std::fs::read(&in_path).map(|now| &now != b).unwrap_or(true) {
                                bad("output-modified", "the input file (named as output too) was modified although the input was at fault".into());
                            }
                        }
                    }
                    "new-file" | "missing-directory" | "file-named-dash" | "long-file-name" | "directory-named-like-output-plus-tmp" | "the-input-file-itself" | "symlink-to-the-input-file" => {
                        if out_path.as_ref().map(|p| dir.join(p).exists()).unwrap_or(false) {
                            bad("output-created", "the output file was created although the input was at fault".into());
                        }
                    }
                    "existing-file" | "existing-file-same-length" | "existing-empty-file" | "symlink-to-existing-file" => {
                        let p = out_path.as_ref().unwrap();
                        let same = std::fs::read(p).map(|b| b == OLD_CONTENT || b.iter().all(|x| *x == b'#')).unwrap_or(false);
                        let mtime_after = std::fs::metadata(p).ok().and_then(|m| m.modified().ok());
                        if !same || mtime_after != mtime_before {
                            bad("output-modified", "the existing output file was modified although the input was at fault".into());
                        }
                    }
                    _ => {}
                }
            }
        }
    }
    let _ = std::fs::remove_dir_all(&dir);
    vs
}

pub fn run(ctx: &Ctx) {
    let bin = binary(ctx);
    if !bin.exists() {
        return ctx.machinery_error(format!("{} is missing (the check script builds it)", bin.display()));
    }
    let work = PathBuf::from(format!("{}/work/c12-{}", ctx.verif_dir, std::process::id()));
    let _ = std::fs::remove_dir_all(&work);
    let all = inputs();
    let total = (all.len() * PARSERS.len() * DERIVES.len() * SORTS.len() * OUTPUTS.len()) as u64;
    // the full product with the first spelling of the command line; the other spellings for the outputs
    // stdout, new file and a file named `-`
    let res = par_for(
        total * SPELLINGS.len() as u64,
        ctx.threads,
        8,
        Some(ctx.deadline),
        |_| (0u64, 0u64),
        |acc, k| {
            let spelling = k / total;
            let c = decode(k % total, all.len());
            if spelling > 0 && !matches!(OUTPUTS[c.output], "stdout" | "new-file" | "file-named-dash") {
                return;
            }
            let i = (k % total) | (spelling << SPELLING_SHIFT);
            let vs = run_case(ctx, &bin, &all, i, &work);
            ctx.report_all(vs);
            acc.0 += 1;
            if expected_text(&all[c.input], PARSERS[c.parser], DERIVES[c.derive], SORTS[c.sort]).is_none() || c.output == 3 || c.output == 4 {
                acc.1 += 1;
            }
            if ctx.sample_hash_qualifies(i) {
                ctx.sample(i, || json!({"input": name_of(&all[c.input]), "parser": PARSERS[c.parser], "derive": DERIVES[c.derive], "sort": SORTS[c.sort], "output": OUTPUTS[c.output]}));
            }
        },
    );
    // second part: many more valid inputs under a reduced flag product (--derive default, outputs stdout / new file)
    let extra = more_valid_inputs();
    let reduced: Vec<u64> = {
        // indices of the full product restricted to derive = None and output in {stdout, new-file}
        let mut v = Vec::new();
        for i in 0..(extra.len() * PARSERS.len() * DERIVES.len() * SORTS.len() * OUTPUTS.len()) as u64 {
            let c = decode(i, extra.len());
            if c.derive == 0 && c.output < 2 {
                v.push(i);
            }
        }
        v
    };
    let res2 = par_for(
        reduced.len() as u64,
        ctx.threads,
        8,
        Some(ctx.deadline),
        |_| 0u64,
        |acc, k| {
            let vs = run_case(ctx, &bin, &extra, reduced[k as usize], &work);
            for mut v in vs {
                v.replay = json!({"index": reduced[k as usize], "input_set": "extra"});
                ctx.report(v);
            }
            *acc += 1;
        },
    );
    // third part: every 1-edit variant of a valid document, default flags, stdout and new file
    let edited = edited_inputs();
    let res3 = par_for(
        edited.len() as u64 * 2,
        ctx.threads,
        8,
        Some(ctx.deadline),
        |_| 0u64,
        |acc, k| {
            let input_idx = (k / 2) as usize;
            // index in the full product: parser 0, derive 0, sort 0, output k % 2
            let idx = (input_idx as u64) * (PARSERS.len() * DERIVES.len() * SORTS.len() * OUTPUTS.len()) as u64 + (k % 2);
            let vs = run_case(ctx, &bin, &edited, idx, &work);
            for mut v in vs {
                v.replay = json!({"index": idx, "input_set": "edited"});
                ctx.report(v);
            }
            *acc += 1;
        },
    );
    let _ = std::fs::remove_dir_all(&work);
    ctx.set("edited_inputs", json!({"inputs": edited.len(), "runs": res3.processed}));
    ctx.set("evaluations", json!(res.accs.iter().map(|a| a.0).sum::<u64>() + res2.processed + res3.processed));
    ctx.set("distinct_nontrivial", json!(res.accs.iter().map(|a| a.1).sum::<u64>()));
    ctx.set("exhaustive", json!(res.complete && res2.complete && res3.complete));
    ctx.set("further_valid_inputs", json!({"inputs": extra.len(), "runs": res2.processed, "flags": "parser x sort, derive default, output stdout / new file"}));
    ctx.set("inputs", json!(all.iter().map(name_of).collect::<Vec<_>>()));
    ctx.set("dimensions", json!({"inputs": all.len(), "parser": PARSERS.len(), "derive": DERIVES.len(), "sort": SORTS.len(), "output": OUTPUTS.len(), "spellings": SPELLINGS}));
    ctx.set(
        "rule",
        json!("the full product input x --parser x --derive x --sort x output target (and, for the outputs stdout / new file / file named `-`, x four spellings of the same command line: separate long options, attached short options after the paths, --long=value, short options between the paths), every combination executed on the real binary (built from /repo's working tree, hooks off) in a fresh directory; success: exit 0 and exactly header + library rendering (computed in-process with the corresponding Options) in the file with empty stdout, or on stdout followed by one newline; failure (input unreadable / not UTF-8 / rejected, or output not creatable): exit 1, empty stdout, non-empty stderr, and the named output file neither created nor modified when the input was at fault. distinct_nontrivial = combinations with a fault (input at fault or output not creatable), all distinct by construction"),
    );
    ctx.assume("argument-parsing errors (clap, exit 2) and write errors after a successful create are outside the enumerated space");
}

pub fn replay(ctx: &Ctx, case: &Value) {
    let bin = binary(ctx);
    if !bin.exists() {
        return ctx.machinery_error(format!("{} is missing", bin.display()));
    }
    let work = PathBuf::from(format!("{}/work/c12-replay-{}", ctx.verif_dir, std::process::id()));
    let all = match case.get("input_set").and_then(|x| x.as_str()) {
        Some("extra") => more_valid_inputs(),
        Some("edited") => edited_inputs(),
        _ => inputs(),
    };
    let idx = case["index"].as_u64().unwrap_or(0);
    let a = run_case(ctx, &bin, &all, idx, &work);
    let b = run_case(ctx, &bin, &all, idx, &work);
    if a.len() != b.len() {
        ctx.machinery_error("replay is not deterministic".into());
    }
    ctx.report_all(a);
    let _ = std::fs::remove_dir_all(&work);
}
