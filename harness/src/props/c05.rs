//! C05 — rendering is deterministic.
//! 1. order exploration (hooks on): every history is re-executed under every assignment of
//!    HashMap iteration orders with a bounded number of deviations from insertion order;
//! 2. repetition: same thread, fresh threads, two processes of the hooks-off build (real HashMap,
//!    fresh SipHash keys per thread) — all observations must be byte-equal.

use super::hist::*;
use crate::choice::{explore, order_arity, order_for, Chooser};
use crate::ctx::{fnv, Ctx, Violation};
use crate::docspace::{Space, SpaceCfg};
use crate::par::par_for;
use crate::subject;
use serde_json::{json, Value};
use std::collections::HashSet;
use std::io::Write;
use xml_schema_generator::verif;

pub const COLLISION_POOL: &[&str] = &[
    "Foo", "foo", "type", "r_type", "p_type", "a-b", "a.b", "ns:c", "ns_c", "c", "a", "b",
];

fn space_cfg(names: &[&str], w: usize) -> SpaceCfg {
    let mut enames: Vec<String> = names.iter().map(|s| s.to_string()).collect();
    enames.push("p".into());
    SpaceCfg {
        root: "r".into(),
        enames,
        anames: vec![],
        attr_seq: false,
        max_attrs: 0,
        depth: 3,
        kinds: vec![],
        both_empty: true,
        root_attrs: false,
        max_weight: w,
    }
}

pub fn observe_under(docs: &[String], ch: &Chooser) -> String {
    let c = ch.clone();
    verif::set_chooser(Some(Box::new(move |n| order_for(n, c.choose(order_arity(n))))));
    let o = subject::observe_history(docs);
    verif::set_chooser(None);
    o
}

struct CaseResult {
    executions: u64,
    points: u64,
    outcomes: usize,
    capped: bool,
    /// (choices, observation) of the first execution that differs from the default-order run
    divergent: Option<(Vec<usize>, String, String)>,
    machinery: Vec<String>,
}

fn explore_case(docs: &[String], bound: usize, max_exec: u64) -> CaseResult {
    let mut base: Option<String> = None;
    let mut outcomes: HashSet<u64> = HashSet::new();
    let mut divergent = None;
    let stats = explore(
        bound,
        max_exec,
        &|ch: &Chooser| observe_under(docs, ch),
        &mut |choices, _arities, obs: String| {
            outcomes.insert(fnv(&obs));
            match &base {
                None => base = Some(obs),
                Some(b) => {
                    if *b != obs && divergent.is_none() {
                        divergent = Some((choices.to_vec(), b.clone(), obs));
                    }
                }
            }
        },
    );
    CaseResult {
        executions: stats.executions,
        points: stats.points,
        outcomes: outcomes.len(),
        capped: stats.capped,
        divergent,
        machinery: stats.divergences,
    }
}

/// run the hooks-off helper on all cases; returns per case (number of distinct observations, hash of the first, observations)
fn free_running(ctx: &Ctx, cases: &[Vec<String>], fresh: usize) -> Result<Vec<(usize, String, Vec<String>)>, String> {
    free_running_opt(ctx, cases, fresh, false)
}

fn free_running_opt(ctx: &Ctx, cases: &[Vec<String>], fresh: usize, noise_first: bool) -> Result<Vec<(usize, String, Vec<String>)>, String> {
    let bin = format!("{}/target/plain/release/xsgv", ctx.verif_dir);
    if !std::path::Path::new(&bin).exists() {
        return Err(format!("{} is missing (the check script builds it)", bin));
    }
    let nproc = ctx.threads.max(1);
    let chunks: Vec<&[Vec<String>]> = cases.chunks(cases.len().div_ceil(nproc).max(1)).collect();
    let results: Vec<Result<Vec<(usize, String, Vec<String>)>, String>> = std::thread::scope(|s| {
        let hs: Vec<_> = chunks
            .iter()
            .map(|chunk| {
                let bin = bin.clone();
                s.spawn(move || -> Result<Vec<(usize, String, Vec<String>)>, String> {
                    let mut child = std::process::Command::new(&bin)
                        .args(["repeat", "3", &fresh.to_string(), if noise_first { "noise-first" } else { "plain" }])
                        .stdin(std::process::Stdio::piped())
                        .stdout(std::process::Stdio::piped())
                        .stderr(std::process::Stdio::null())
                        .spawn()
                        .map_err(|e| e.to_string())?;
                    let mut input = String::new();
                    for c in chunk.iter() {
                        input.push_str(&serde_json::to_string(c).unwrap());
                        input.push('\n');
                    }
                    let mut stdin = child.stdin.take().ok_or("no stdin")?;
                    let writer = std::thread::spawn(move || {
                        let _ = stdin.write_all(input.as_bytes());
                    });
                    let out = child.wait_with_output().map_err(|e| e.to_string())?;
                    let _ = writer.join();
                    if !out.status.success() {
                        return Err(format!("helper exited with {:?}", out.status));
                    }
                    let mut res = Vec::new();
                    for line in String::from_utf8_lossy(&out.stdout).lines() {
                        let v: Value = serde_json::from_str(line).map_err(|e| e.to_string())?;
                        let outs: Vec<String> = v
                            .get("outs")
                            .and_then(|o| o.as_array())
                            .map(|a| a.iter().filter_map(|x| x.as_str().map(|s| s.to_string())).collect())
                            .unwrap_or_default();
                        res.push((
                            v["n"].as_u64().unwrap_or(0) as usize,
                            v["hash"].as_str().unwrap_or("").to_string(),
                            outs,
                        ));
                    }
                    if res.len() != chunk.len() {
                        return Err("helper returned a different number of lines".into());
                    }
                    Ok(res)
                })
            })
            .collect();
        hs.into_iter().map(|h| h.join().unwrap_or_else(|_| Err("helper thread panicked".into()))).collect()
    });
    let mut all = Vec::new();
    for r in results {
        all.extend(r?);
    }
    Ok(all)
}

fn diff_hint(a: &str, b: &str) -> String {
    let la: Vec<&str> = a.split('\n').collect();
    let lb: Vec<&str> = b.split('\n').collect();
    for (x, y) in la.iter().zip(lb.iter()) {
        if x != y {
            return format!("`{}` vs `{}`", x.trim(), y.trim());
        }
    }
    "outputs differ in length".into()
}

pub fn build_cases(ctx: &Ctx) -> Vec<Vec<String>> {
    let k = ctx.tier.pick(2, 3);
    let subs = super::names::subsets(COLLISION_POOL.len(), k);
    let w_single = 3;
    let (w_first, w_second) = (2, 1);
    let mut seen: HashSet<Vec<String>> = HashSet::new();
    let mut cases: Vec<Vec<String>> = Vec::new();
    let xml = |sp: &Space, i: u64| crate::dom::Doc::from_root(sp.get(i)).to_xml();
    for sub in subs {
        let names: Vec<&str> = sub.iter().map(|&i| COLLISION_POOL[i]).collect();
        let sp = Space::new(space_cfg(&names, w_single));
        for i in 0..sp.len() {
            let c = vec![xml(&sp, i)];
            if seen.insert(c.clone()) {
                cases.push(c);
            }
        }
        let sp2 = Space::new(space_cfg(&names, w_first));
        let firsts: Vec<String> = (0..sp2.len()).map(|i| xml(&sp2, i)).collect();
        let seconds: Vec<String> = (0..sp2.len_upto(w_second)).map(|i| xml(&sp2, i)).collect();
        for a in &firsts {
            for b in &seconds {
                let c = vec![a.clone(), b.clone()];
                if seen.insert(c.clone()) {
                    cases.push(c);
                }
            }
        }
    }
    // attributes as sequences (colliding identifiers Foo / foo): several new attributes at once
    let attr_space = |w: usize| {
        Space::new(SpaceCfg {
            root: "r".into(),
            enames: vec!["b".into()],
            anames: vec!["Foo".into(), "foo".into(), "y".into()],
            attr_seq: true,
            max_attrs: 3,
            depth: 2,
            kinds: vec![],
            both_empty: false,
            root_attrs: true,
            max_weight: w,
        })
    };
    let sp = attr_space(5);
    for i in 0..sp.len() {
        let c = vec![xml(&sp, i)];
        if seen.insert(c.clone()) {
            cases.push(c);
        }
    }
    let sp = attr_space(3);
    let docs: Vec<String> = (0..sp.len()).map(|i| xml(&sp, i)).collect();
    for a in docs.iter().take(ctx.tier.pick(40, 400)) {
        for b in &docs {
            let c = vec![a.clone(), b.clone()];
            if seen.insert(c.clone()) {
                cases.push(c);
            }
        }
    }
    // the same struct name wanted in two different branches (suffix assignment), for every pair of the pool
    for pair in super::names::subsets(COLLISION_POOL.len(), 2) {
        let (x, y) = (COLLISION_POOL[pair[0]], COLLISION_POOL[pair[1]]);
        for t in [
            format!("<r><{x}><p/></{x}><{y}><p/></{y}></r>"),
            format!("<r><{x}><p><{x}/></p></{x}><{y}><p><{y}/></p></{y}></r>"),
            format!("<r><p><{x}><c/></{x}><{y}><c/></{y}></p><{x}><c/></{x}></r>"),
        ] {
            let c = vec![t];
            if seen.insert(c.clone()) {
                cases.push(c);
            }
        }
    }
    // three (four) children of one element: two that fold onto one identifier plus the name that the
    // numbered identifier would get (Foo, foo, foo_1 ...), in every order, as elements and as attributes
    for trio in [["Foo", "foo", "foo_1"], ["a-b", "a_b", "a_b_1"], ["type", "Type", "r_type"], ["Foo", "FOO", "foo"]] {
        let perms = [[0usize, 1, 2], [0, 2, 1], [1, 0, 2], [1, 2, 0], [2, 0, 1], [2, 1, 0]];
        for p in perms {
            let kids: String = p.iter().map(|&i| format!("<{}>t</{}>", trio[i], trio[i])).collect();
            let structs: String = p.iter().map(|&i| format!("<{} k=\"v\"/>", trio[i])).collect();
            let attrs: String = p.iter().map(|&i| format!(" {}=\"v\"", trio[i])).collect();
            for t in [format!("<r>{}</r>", kids), format!("<r>{}</r>", structs), format!("<r{}/>", attrs), format!("<r><p{}>{}</p></r>", attrs, kids)] {
                let c = vec![t];
                if seen.insert(c.clone()) {
                    cases.push(c);
                }
            }
        }
    }
    // elements named like derive items, type names and option words (anything a renderer might keep a
    // process-wide list of): the observation renders with a derive list naming Debug, Clone, PartialEq
    cases.push(vec!["<r><debug k=\"v\"/><clone k=\"v\"><debug/></clone><PartialEq k=\"v\"/><serialize k=\"v\"/><deserialize k=\"v\"/></r>".to_string()]);
    cases.push(vec!["<debug><clone k=\"v\"/></debug>".to_string(), "<debug><partial_eq k=\"v\"/></debug>".to_string()]);
    // very long names (directly, and through the concatenation of ten nested names)
    for len in [40usize, 63, 64, 65, 100, 300] {
        let name = format!("n{}", "x".repeat(len));
        cases.push(vec![format!("<r><{n} k=\"v\"><{n}/></{n}><b><{n} k=\"v\"/></b></r>", n = name)]);
    }
    {
        let mut s = String::from("<doc>");
        for _ in 0..10 {
            s.push_str("<section k=\"v\">");
        }
        for _ in 0..10 {
            s.push_str("</section>");
        }
        s.push_str("</doc>");
        cases.push(vec![s]);
    }
    // wide elements: many struct-typed children with subtrees of different sizes
    for width in [7usize, 8, 9, 12, 17] {
        for variant in 0..3 {
            let mut s = String::from("<r>");
            for i in 0..width {
                let size = match variant {
                    0 => i,
                    1 => width - i,
                    _ => (i * 7) % width,
                };
                s.push_str(&format!("<c{} k=\"v\">", i));
                for j in 0..size * 3 {
                    s.push_str(&format!("<d{} k=\"v\"><e/></d{}>", j, j));
                }
                s.push_str(&format!("</c{}>", i));
            }
            s.push_str("</r>");
            cases.push(vec![s]);
        }
    }
    // plain-name histories of three documents: state must not leak between calls either
    let plain = materialise(plain_cfg(2));
    for a in plain.iter().step_by(3) {
        for b in plain.iter().step_by(5) {
            for c in plain.iter().step_by(7) {
                let case = vec![a.xml.clone(), b.xml.clone(), c.xml.clone()];
                if seen.insert(case.clone()) {
                    cases.push(case);
                }
            }
        }
    }
    cases
}

pub fn run(ctx: &Ctx) {
    let cases = build_cases(ctx);
    let bound = ctx.tier.pick(2, 3);
    let max_exec = ctx.tier.pick(3_000, 60_000);
    // 1. order exploration
    let t_start = std::time::Instant::now();
    let res = par_for(
        cases.len() as u64,
        ctx.threads,
        16,
        Some(ctx.deadline),
        |_| (0u64, 0u64, 0u64, 0u64, 0u64, 0u64),
        |acc, i| {
            let docs = &cases[i as usize];
            // the order explorer is not run on the large wide-element cases (thousands of orders of
            // one big map); they are covered by the free-running repetition below
            if docs.iter().map(|d| d.len()).sum::<usize>() > 600 {
                return;
            }
            let r = explore_case(docs, bound, max_exec);
            acc.0 += r.executions;
            acc.1 += r.points;
            if r.outcomes > 1 {
                acc.2 += 1;
            }
            if r.capped {
                acc.3 += 1;
            }
            if r.points > 0 {
                acc.4 += 1;
            }
            // a replay whose choice points differ from the recorded ones means that the library keeps
            // state between calls (e.g. a cache). That is not a verdict by itself: the outputs decide,
            // and the free-running repetition below compares same-thread, fresh-thread and
            // fresh-process runs of every case
            acc.5 += r.machinery.len() as u64;
            if let Some((choices, base, other)) = r.divergent {
                // confirm on the real HashMap before reporting
                let confirmed = free_running(ctx, std::slice::from_ref(docs), 256)
                    .map(|v| v[0].0 > 1)
                    .unwrap_or(false);
                ctx.report(Violation {
                    class: if confirmed { "hash-order".into() } else { "hash-order/unconfirmed".into() },
                    summary: format!(
                        "output depends on HashMap iteration order ({}; {}): {} | docs: {}",
                        if confirmed { "confirmed with the real HashMap in fresh threads" } else { "NOT reproduced with the real HashMap in 256 fresh threads" },
                        format!("order choices {:?}", choices),
                        diff_hint(&base, &other),
                        docs.join(" ++ ")
                    ),
                    replay: json!({"docs": docs, "order_choices": choices}),
                    rank: i,
                });
            }
            if ctx.sample_hash_qualifies(i) {
                ctx.sample(i, || json!({"history": docs}));
            }
        },
    );
    let executions: u64 = res.accs.iter().map(|a| a.0).sum();
    let points: u64 = res.accs.iter().map(|a| a.1).sum();
    let multi: u64 = res.accs.iter().map(|a| a.2).sum();
    let capped: u64 = res.accs.iter().map(|a| a.3).sum();
    let with_points: u64 = res.accs.iter().map(|a| a.4).sum();
    let divergences: u64 = res.accs.iter().map(|a| a.5).sum();
    ctx.set("replays_with_different_choice_points", json!(divergences));
    ctx.set("states", json!(executions));
    ctx.set("transitions", json!(points.max(1)));
    ctx.set("cases", json!(cases.len()));
    ctx.set("cases_explored", json!(res.processed));
    ctx.set("cases_with_choice_points", json!(with_points));
    ctx.set("cases_with_more_than_one_outcome", json!(multi));
    ctx.set("deviation_bound", json!(bound));
    ctx.set("cases_capped_at_max_executions", json!(capped));
    ctx.set("exhaustive", json!(res.complete && capped == 0));
    if !res.complete {
        ctx.set("cap", json!(format!("wall budget: {} of {} cases explored", res.processed, cases.len())));
    }
    let t_explored = t_start.elapsed().as_secs_f64();
    // 2. repetition on the shipped library (hooks off), two processes per chunk
    let fresh = ctx.tier.pick(5, 16);
    let mut validated = 0u64;
    let mut shared: Option<Vec<(usize, String)>> = None;
    match (free_running(ctx, &cases, fresh), free_running_opt(ctx, &cases, 1, true)) {
        (Ok(a), Ok(b)) => {
            shared = Some(a.iter().map(|(n, h, _)| (*n, h.clone())).collect());
            for (i, ((na, ha, outs), (nb, hb, _))) in a.iter().zip(b.iter()).enumerate() {
                validated += 1;
                let default_run = subject::observe_history(&cases[i]);
                let again = subject::observe_history(&cases[i]);
                if *na > 1 || *nb > 1 {
                    ctx.report(Violation {
                        class: "output-varies-between-runs".into(),
                        summary: format!(
                            "repeated runs of the shipped library (real HashMap, fresh threads) give {} different outputs: {} | docs: {}",
                            na.max(nb),
                            if outs.len() > 1 { diff_hint(&outs[0], &outs[1]) } else { String::new() },
                            cases[i].join(" ++ ")
                        ),
                        replay: json!({"docs": cases[i]}),
                        rank: i as u64,
                    });
                } else if ha != hb {
                    ctx.report(Violation {
                        class: "differs-between-processes".into(),
                        summary: format!("two processes rendered differently | docs: {}", cases[i].join(" ++ ")),
                        replay: json!({"docs": cases[i]}),
                        rank: i as u64,
                    });
                } else if default_run != again {
                    ctx.report(Violation {
                        class: "differs-between-calls".into(),
                        summary: format!("two calls in one thread rendered differently | docs: {}", cases[i].join(" ++ ")),
                        replay: json!({"docs": cases[i]}),
                        rank: i as u64,
                    });
                } else if format!("{:016x}", fnv(&default_run)) != *ha {
                    ctx.report(Violation {
                        class: "hooks-change-output".into(),
                        summary: format!(
                            "the hooks-on build in insertion order and the shipped library render differently | docs: {}",
                            cases[i].join(" ++ ")
                        ),
                        replay: json!({"docs": cases[i]}),
                        rank: i as u64,
                    });
                }
            }
        }
        (Err(e), _) | (_, Err(e)) => ctx.machinery_error(format!("hooks-off helper: {}", e)),
    }
    let t_repeated = t_start.elapsed().as_secs_f64();
    // 2b. a process of its own for some cases (state that the first call of a process sets up for all
    // later ones is invisible when thousands of cases share a helper process): every 97th case and the
    // cases whose names are words of the derive lists used by the observation
    let solo: Vec<usize> = (0..cases.len()).filter(|i| i % 97 == 0 || cases[*i].iter().any(|d| d.contains("<debug"))).collect();
    let solo_res = par_for(
        solo.len() as u64,
        ctx.threads,
        1,
        None,
        |_| 0u64,
        |acc, k| {
            let i = solo[k as usize];
            if let Ok(r) = free_running(ctx, std::slice::from_ref(&cases[i]), 2) {
                *acc += 1;
                let (n, h, outs) = &r[0];
                if *n > 1 {
                    ctx.report(Violation {
                        class: "output-varies-between-runs".into(),
                        summary: format!(
                            "in a process of its own, repeated runs give {} different outputs: {} | docs: {}",
                            n,
                            if outs.len() > 1 { diff_hint(&outs[0], &outs[1]) } else { String::new() },
                            cases[i].join(" ++ ")
                        ),
                        replay: json!({"docs": cases[i]}),
                        rank: i as u64,
                    });
                } else if let Some(sh) = shared.as_ref() {
                    if sh[i].0 == 1 && sh[i].1 != *h {
                        ctx.report(Violation {
                            class: "differs-between-processes".into(),
                            summary: format!("a process of its own and a process shared with other cases render differently | docs: {}", cases[i].join(" ++ ")),
                            replay: json!({"docs": cases[i]}),
                            rank: i as u64,
                        });
                    }
                }
            }
        },
    );
    ctx.set("cases_run_in_a_process_of_their_own", json!(solo_res.accs.iter().sum::<u64>()));
    ctx.set("phase_wall_s", json!({"order_exploration": (t_explored * 10.0).round() / 10.0, "free_running_repetition": ((t_repeated - t_explored) * 10.0).round() / 10.0, "own_process_runs": ((t_start.elapsed().as_secs_f64() - t_repeated) * 10.0).round() / 10.0}));
    ctx.set("traces_validated_against_impl", json!(validated));
    ctx.set("free_running_fresh_threads_per_case", json!(fresh + 1));
    ctx.set(
        "rule",
        json!("cases = every document of weight <= W and every ordered pair (first of weight <= 2, second of weight <= 1 quick / 2 thorough) over root r, element p and each 2-subset (quick) / 3-subset (thorough) of a pool of names whose field identifiers collide (Foo/foo, type/r_type/p_type, a-b/a.b, ns:c/ns_c/c (ns:c and c differ only in the prefix), a, b), plus documents and pairs whose elements carry attribute sequences over {Foo, foo, y}, wide elements (7..17 struct-typed children with subtrees of different sizes), and triples of plain documents. states = executions of parse+extend+render (both sort options, both presets) under the order explorer: every HashMap iteration in library code is a choice point (<= 3 entries: all n! orders; more: adjacent transpositions and reversal), all assignments with at most `deviation_bound` non-default orders; transitions = choice points taken. Every case is then repeated on the hooks-off build (real HashMap): 3x in one thread, in fresh threads and in a second process"),
    );
    ctx.assume("hash iteration order is modelled as an arbitrary permutation chosen per (map instance, key set); a divergence is reported as a violation only with the class `hash-order` when the shipped library (real HashMap) shows two different outputs in fresh threads");
}

pub fn replay(ctx: &Ctx, case: &Value) {
    let docs: Vec<String> = case["docs"]
        .as_array()
        .map(|a| a.iter().filter_map(|x| x.as_str().map(|s| s.to_string())).collect())
        .unwrap_or_default();
    if docs.is_empty() {
        return ctx.machinery_error("replay case without docs".into());
    }
    if let Some(choices) = case.get("order_choices").and_then(|c| c.as_array()) {
        let prefix: Vec<usize> = choices.iter().filter_map(|c| c.as_u64().map(|x| x as usize)).collect();
        let base = observe_under(&docs, &Chooser::new(vec![]));
        let a = observe_under(&docs, &Chooser::new(prefix.clone()));
        let b = observe_under(&docs, &Chooser::new(prefix.clone()));
        if a != b {
            ctx.machinery_error("replay of the recorded order choices is not deterministic".into());
        }
        if a != base {
            ctx.report(Violation {
                class: "hash-order".into(),
                summary: format!("order choices {:?} change the output: {}", prefix, diff_hint(&base, &a)),
                replay: case.clone(),
                rank: 0,
            });
        }
    }
    match free_running(ctx, std::slice::from_ref(&docs), 256) {
        Ok(v) => {
            if v[0].0 > 1 {
                ctx.report(Violation {
                    class: "hash-order".into(),
                    summary: format!("the shipped library renders {} different outputs in 256 fresh threads", v[0].0),
                    replay: case.clone(),
                    rank: 0,
                });
            }
        }
        Err(e) => ctx.machinery_error(e),
    }
}
