//! C09 — field order follows the document, or the XML name when sorting is requested.

use super::hist::*;
use crate::ctx::{fnv, Ctx, Violation};
use crate::docspace::{Kind, Space, SpaceCfg};
use crate::oracle::{check_exact, check_preorder, Binding, Order};
use crate::par::par_for;
use crate::subject::{self, Preset};
use serde_json::{json, Value};
use std::collections::HashSet;
use xml_schema_generator::Element;

fn order_cfg(w: usize) -> SpaceCfg {
    SpaceCfg {
        root: "r".into(),
        enames: vec!["b".into(), "a".into(), "c".into()],
        anames: vec!["y".into(), "x".into(), "z".into()],
        attr_seq: true,
        max_attrs: 3,
        depth: 3,
        kinds: vec![Kind::Text],
        both_empty: false,
        root_attrs: true,
        max_weight: w,
    }
}

/// one element name, three attribute names as sequences: several new attributes at once, in any
/// position relative to known ones
fn attr_cfg(w: usize) -> SpaceCfg {
    SpaceCfg {
        root: "r".into(),
        enames: vec!["b".into()],
        anames: vec!["y".into(), "x".into(), "z".into()],
        attr_seq: true,
        max_attrs: 3,
        depth: 2,
        kinds: vec![],
        both_empty: false,
        root_attrs: false,
        max_weight: w,
    }
}

pub fn judge(docs: &[&DocEntry], el: &Element<String>, rank: u64) -> Vec<Violation> {
    let mut out = Vec::new();
    let mk = |class: &str, msg: String| Violation {
        class: class.to_string(),
        summary: format!("{} | docs: {}", msg, docs.iter().map(|d| d.xml.as_str()).collect::<Vec<_>>().join(" ++ ")),
        replay: docs_json(docs),
        rank,
    };
    let expected = expected_schema(docs);
    let b = Binding::quick_xml();
    let mut views = Vec::new();
    for (sorted, order, label) in [(false, Order::Document, "unsorted"), (true, Order::XmlName, "sort-by-name")] {
        match render_read(el, Preset::QuickXml, sorted) {
            Err(e) => out.push(mk("unreadable", e)),
            Ok(r) => {
                match check_exact(&expected, &r.structs, &r.tree, &b, order, "") {
                    Err(msg) => {
                        // a difference that is not about order is C03's business, not an order violation
                        if check_exact(&expected, &r.structs, &r.tree, &b, Order::Ignore, "").is_ok() {
                            out.push(mk(&format!("{}/field-order", label), format!("[{}] {}", label, msg)));
                        }
                    }
                    Ok(()) => {}
                }
                if let Err(msg) = check_preorder(&r.tree) {
                    out.push(mk(&format!("{}/struct-order", label), format!("[{}] {}", label, msg)));
                }
                // the same options arrived at in another way render the same bytes
                let text = subject::render(el, Preset::QuickXml, sorted);
                for (how, o) in subject::option_spellings(Preset::QuickXml, sorted) {
                    match subject::guarded(|| el.to_serde_struct(&o)) {
                        Ok(t) if t == text => {}
                        Ok(_) => out.push(mk(&format!("{}/options-spelling", label), format!("[{}] the same options built with {} render differently", label, how))),
                        Err(p) => out.push(mk(&format!("{}/options-spelling", label), format!("[{}] rendering with options built with {} panicked: {}", label, how, p))),
                    }
                }
                views.push(r);
            }
        }
    }
    if views.len() == 2 {
        // switching the option changes nothing but orders: same structs with the same fields
        let norm = |r: &Rendered| {
            let mut v: Vec<(String, Vec<String>)> = r
                .structs
                .iter()
                .map(|s| {
                    let mut f: Vec<String> = s
                        .fields
                        .iter()
                        .map(|f| format!("{:?}|{}|{}", f.rename, f.ident, f.ty()))
                        .collect();
                    f.sort();
                    (format!("{:?}|{}", s.derive, s.name), f)
                })
                .collect();
            v.sort();
            v
        };
        if norm(&views[0]) != norm(&views[1]) {
            out.push(mk(
                "sort-changes-content",
                "the two sort options differ in more than order (struct names, identifiers, renames or types)".into(),
            ));
        }
    }
    out
}

pub fn run(ctx: &Ctx) {
    ctx.set("exhaustive", json!(true));
    let mut total_evals = 0u64;
    let mut all_distinct: HashSet<u64> = HashSet::new();
    for cfg in [order_cfg(ctx.tier.pick(4, 5)), attr_cfg(ctx.tier.pick(7, 8))] {
    let describe = cfg.describe();
    let sp = Space::new(cfg);
    let res = par_for(
        sp.len(),
        ctx.threads,
        512,
        Some(ctx.deadline),
        |_| HashSet::<u64>::new(),
        |acc, i| {
            let d = DocEntry::from_root(sp.get(i));
            if i % 97 == 0 {
                if let Err(e) = self_check(&d) {
                    ctx.machinery_error(e);
                }
            }
            match run_history(&[&d]) {
                Ok(el) => {
                    ctx.report_all(judge(&[&d], &el, i));
                    // non-trivial: some position has >= 2 attributes or >= 2 distinct children
                    let e = expected_schema(&[&d]);
                    fn wide(s: &crate::refmodel::SNode) -> bool {
                        s.attrs.len() >= 2 || s.children.len() >= 2 || s.children.iter().any(|c| wide(&c.node))
                    }
                    if wide(&e) {
                        acc.insert(fnv(&e.key()));
                    }
                }
                Err(msg) => ctx.report(Violation {
                    class: "parse-failed".into(),
                    summary: format!("well-formed document rejected: {} | {}", msg, d.xml),
                    replay: docs_json(&[&d]),
                    rank: i,
                }),
            }
            if ctx.sample_hash_qualifies(i) {
                ctx.sample(i, || json!({"document": d.xml}));
            }
        },
    );
    for a in res.accs {
        all_distinct.extend(a);
    }
    total_evals += res.processed;
    ctx.push("single_document_spaces", json!({"space": describe, "size": sp.len(), "visited": res.processed}));
    if !res.complete {
        ctx.set("exhaustive", json!(false));
        ctx.push("caps", json!(format!("wall budget: {} of {} single documents", res.processed, sp.len())));
    }
    }
    ctx.set("evaluations", json!(total_evals));
    ctx.set("distinct_nontrivial", json!(all_distinct.len()));
    // named trees and wide families before the (long) searches: a wall budget that runs out cuts the deepest
    // level of a search, not these parts
    names_part(ctx);
    families(ctx);
    let searches: Vec<(usize, usize)> = ctx.tier.pick(vec![(2, 3)], vec![(2, 5), (3, 2)]);
    for (aw, depth) in searches {
        let alphabet = materialise(order_cfg(aw));
        let mut events: Vec<Event> = alphabet.iter().cloned().map(Event::doc).collect();
        events.extend(elementless().into_iter().take(1).map(Event::doc));
        let judge_t = |t: &Transition| {
            if let Some(s) = t.succ {
                ctx.report_all(judge(&t.all_docs(), s, t.rank))
            }
        };
        let judge_i = |d: &DocEntry, el: &Element<String>, i: u64| ctx.report_all(judge(&[d], el, i));
        let search = ExtendSearch {
            ctx,
            init_docs: &alphabet,
            events: &events,
            depth,
            state_cap: ctx.tier.pick(400_000, 1_500_000),
            audit_cap: ctx.tier.pick(2_000, 20_000),
            judge_init: &judge_i,
            judge: &judge_t,
        };
        let stats = search.run();
        record_bfs(ctx, &format!("extend over order-sensitive documents of weight <= {}", aw), &stats, events.len(), depth);
    }
    ctx.set(
        "rule",
        json!("order-sensitive document space (attributes: every duplicate-free sequence over {y,x,z}; children over {b,a,c}, alphabets deliberately not in alphabetical order). (a) every single document; (b) breadth-first search over extend_struct. For every history both sort options are rendered: unsorted must list attributes, text, children in first-appearance order of the DOM reference, sort-by-name in ascending XML name; struct definitions in pre-order of that field order; the two renderings must contain the same structs and fields. (c) small trees over 2-subsets of a pool with prefixed, case-variant, keyword and non-ASCII names (sorting is by the full XML name), as one document and split into two. (d) wide elements (9..14 children / attributes named c1..cn in ascending, descending and rotated order) and every history r(a,b,c,d) ++ r(s1) ++ r(s2) with s1, s2 duplicate-free sequences over four names. distinct_nontrivial = distinct reference schemas with a position holding >= 2 attributes or >= 2 children"),
    );
}

pub fn replay(ctx: &Ctx, case: &Value) {
    let docs = match docs_from_json(case) {
        Ok(d) => d,
        Err(e) => return ctx.machinery_error(e),
    };
    let refs: Vec<&DocEntry> = docs.iter().collect();
    let mut seen = Vec::new();
    for _ in 0..2 {
        match run_history(&refs) {
            Ok(el) => {
                let vs = judge(&refs, &el, 0);
                seen.push(vs.iter().map(|v| v.class.clone()).collect::<Vec<_>>());
                ctx.report_all(vs);
            }
            Err(msg) => return ctx.machinery_error(format!("history rejected: {}", msg)),
        }
    }
    if seen[0] != seen[1] {
        ctx.machinery_error("replay is not deterministic".into());
    }
}

/// (c) names whose full-name order differs from their local-name / identifier order
fn names_part(ctx: &Ctx) {
    use super::names::*;
    let wanted = ["x:b", "a:c", "b:k", "a:z", "a", "b", "Foo", "foo", "type", "ns:a", "é", "a-b", "B"];
    let mut names: Vec<PoolName> = Vec::new();
    for w in wanted {
        names.push(PoolName { name: w, category: "order", element: true });
    }
    let subs = subsets(names.len(), 2);
    let params = TreeParams { min_nodes: 1, max_nodes: ctx.tier.pick(3, 4), max_decorated: 1, root_from_subset: false, shard: (0, 1) };
    let res = par_for(
        subs.len() as u64,
        ctx.threads,
        1,
        Some(ctx.deadline),
        |_| 0u64,
        |acc, si| {
            let subset: Vec<PoolName> = subs[si as usize].iter().map(|&i| names[i]).collect();
            let mut local = 0u64;
            for_each_tree(&subset, &params, &mut |root| {
                local += 1;
                let rank = (1 << 50) | (si << 24) | local.min(0xff_ffff);
                let mut histories: Vec<Vec<DocEntry>> = vec![vec![DocEntry::from_root(root.clone())]];
                for at in 1..root.children().count() {
                    if let Some((a, b)) = split(root, at) {
                        histories.push(vec![DocEntry::from_root(a), DocEntry::from_root(b)]);
                    }
                }
                for h in histories {
                    let refs: Vec<&DocEntry> = h.iter().collect();
                    *acc += 1;
                    if let Ok(el) = run_history(&refs) {
                        ctx.report_all(judge(&refs, &el, rank));
                    }
                }
            });
        },
    );
    let evals: u64 = res.accs.iter().sum();
    ctx.add("evaluations", evals);
    ctx.set("named_trees", json!({"names": wanted, "subsets": subs.len(), "subsets_done": res.processed, "nodes_max": params.max_nodes, "histories": evals}));
    if !res.complete {
        ctx.set("exhaustive", json!(false));
        ctx.push("caps", json!("wall or memory budget reached in the part `named trees`: see its done / total counters"));
    }
}

/// (d) wide elements and four-name occurrence histories
fn families(ctx: &Ctx) {
    let mut histories: Vec<Vec<DocEntry>> = Vec::new();
    for n in 9..=14usize {
        let names: Vec<String> = (1..=n).map(|i| format!("c{}", i)).collect();
        let mut orders: Vec<Vec<String>> = vec![names.clone(), names.iter().rev().cloned().collect()];
        for k in [1, n / 2, n - 1] {
            let mut r = names.clone();
            r.rotate_left(k);
            orders.push(r);
        }
        for o in orders {
            let kids: String = o.iter().map(|c| format!("<{} k=\"v\"/>", c)).collect();
            let attrs: String = o.iter().map(|c| format!(" {}=\"v\"", c)).collect();
            for xml in [format!("<r>{}</r>", kids), format!("<r><p{}/><p/></r>", attrs), format!("<r><p>{}</p><p/></r>", kids)] {
                if let Ok(d) = DocEntry::from_xml(&xml) {
                    histories.push(vec![d]);
                }
            }
        }
    }
    // widths around the limits of small integer types (a position or an index kept in a u8): one document,
    // and the same children arriving over two documents
    for n in [127usize, 128, 129, 255, 256, 257, 300] {
        let names: Vec<String> = (1..=n).map(|i| format!("c{}", i)).collect();
        let mut rot = names.clone();
        rot.rotate_left(n / 2);
        for o in [names.clone(), rot] {
            let kid = |c: &String| format!("<{}/>", c);
            let kids: String = o.iter().map(kid).collect();
            let attrs: String = o.iter().map(|c| format!(" {}=\"v\"", c)).collect();
            for xml in [format!("<r>{}</r>", kids), format!("<r><p{}/></r>", attrs)] {
                if let Ok(d) = DocEntry::from_xml(&xml) {
                    histories.push(vec![d]);
                }
            }
            let (h1, h2) = o.split_at(n / 2);
            let d1 = DocEntry::from_xml(&format!("<r>{}</r>", h1.iter().map(kid).collect::<String>()));
            let d2 = DocEntry::from_xml(&format!("<r>{}</r>", h2.iter().map(kid).collect::<String>()));
            if let (Ok(d1), Ok(d2)) = (d1, d2) {
                histories.push(vec![d1, d2]);
            }
        }
    }
    // all duplicate-free sequences over four names
    let four = ["a", "b", "c", "d"];
    let mut seqs: Vec<Vec<&str>> = vec![vec![]];
    fn rec<'a>(four: &[&'a str], cur: &mut Vec<&'a str>, out: &mut Vec<Vec<&'a str>>) {
        for n in four {
            if !cur.contains(n) {
                cur.push(n);
                out.push(cur.clone());
                rec(four, cur, out);
                cur.pop();
            }
        }
    }
    rec(&four, &mut Vec::new(), &mut seqs);
    let doc = |s: &[&str]| DocEntry::from_xml(&format!("<r>{}</r>", s.iter().map(|n| format!("<{}/>", n)).collect::<String>())).expect("doc");
    let first = doc(&four);
    for s1 in &seqs {
        histories.push(vec![first.clone(), doc(s1)]);
        for s2 in &seqs {
            histories.push(vec![first.clone(), doc(s1), doc(s2)]);
        }
    }
    let res = par_for(
        histories.len() as u64,
        ctx.threads,
        16,
        Some(ctx.deadline),
        |_| 0u64,
        |acc, i| {
            let refs: Vec<&DocEntry> = histories[i as usize].iter().collect();
            if let Ok(el) = run_history(&refs) {
                ctx.report_all(judge(&refs, &el, (1 << 53) | i));
                *acc += 1;
            }
        },
    );
    ctx.add("evaluations", res.accs.iter().sum::<u64>());
    ctx.set("families", json!({"histories": histories.len(), "done": res.processed}));
    if !res.complete {
        ctx.set("exhaustive", json!(false));
        ctx.push("caps", json!("wall or memory budget reached in the part `families`: see its done / total counters"));
    }
}
