//! C02 — quick-xml preset: the rendered code compiles, quick_xml::de deserialises every source
//! document (also with deny_unknown_fields) and no value is dropped.
//! The machinery is shared with C13 (serde-xml-rs preset).

use super::hist::*;
use super::names::{pool, subsets, PoolName};
use crate::ctx::{Ctx, Tier, Violation};
use crate::docspace::{decorate, Kind, Space};
use crate::dom::{local_name, unescape, Item, Node};
use crate::progfarm::{Farm, Flavor, ProgResult, Program};
use crate::subject::{self, Preset};
use convert_string::ConvertString;
use serde_json::{json, Value};
use std::collections::HashMap;

/// element content is one text/CDATA item, or children optionally separated by whitespace, or nothing
pub fn data_oriented(n: &Node, allow_ws_between: bool) -> bool {
    let kids = n.children().count();
    let texts: Vec<&Item> = n.items.iter().filter(|i| !matches!(i, Item::Elem(_))).collect();
    let ok = if kids == 0 {
        texts.len() <= 1 && texts.iter().all(|t| matches!(t, Item::Text(_) | Item::CData(_)))
    } else {
        texts.iter().all(|t| match t {
            Item::Text(s) => allow_ws_between && s.trim().is_empty(),
            _ => false,
        })
    };
    ok && n.children().all(|c| data_oriented(c, allow_ws_between))
}

/// no two different names of one element's children / attributes share a local name
pub fn local_names_distinct(n: &Node) -> bool {
    let kids: Vec<&Node> = n.children().collect();
    for (i, a) in kids.iter().enumerate() {
        for b in kids.iter().skip(i + 1) {
            if a.name != b.name && local_name(&a.name) == local_name(&b.name) {
                return false;
            }
        }
    }
    for (i, (a, _)) in n.attrs.iter().enumerate() {
        for (b, _) in n.attrs.iter().skip(i + 1) {
            if local_name(a) == local_name(b) && !a.starts_with("xmlns") && !b.starts_with("xmlns") {
                return false;
            }
        }
    }
    kids.iter().all(|k| local_names_distinct(k))
}

/// C13's additional side condition: no prefixes, no xmlns, attribute names disjoint from child
/// names, repeated children adjacent, no text next to children (not even whitespace)
pub fn namespace_free_adjacent(n: &Node) -> bool {
    if n.name.contains(':') || n.attrs.iter().any(|(k, _)| k.contains(':') || k == "xmlns") {
        return false;
    }
    let kids: Vec<&Node> = n.children().collect();
    if n.attrs.iter().any(|(k, _)| kids.iter().any(|c| c.name == *k)) {
        return false;
    }
    let mut closed: Vec<&str> = Vec::new();
    let mut prev: Option<&str> = None;
    for c in &kids {
        if Some(c.name.as_str()) != prev {
            if closed.contains(&c.name.as_str()) {
                return false;
            }
            if let Some(p) = prev {
                closed.push(p);
            }
            prev = Some(&c.name);
        }
    }
    kids.iter().all(|k| namespace_free_adjacent(k))
}

#[derive(Clone, Copy, Debug, PartialEq, Eq)]
pub enum ValueKind {
    Attribute,
    /// text of an element that the schema types `String`
    TextOfStringTyped,
    /// text of an element that has a struct (bound through the text identifier)
    TextOfStruct,
}

/// attribute values and non-blank text/CDATA contents, unescaped and trimmed, with the kind of
/// site they come from (`schema` = reference schema of the position)
pub fn expected_values(n: &Node, schema: &crate::refmodel::SNode, is_root: bool, out: &mut Vec<(String, ValueKind)>) {
    for (_, v) in &n.attrs {
        out.push((unescape(v).trim().to_string(), ValueKind::Attribute));
    }
    let text_kind = if !is_root && schema.string_typed() { ValueKind::TextOfStringTyped } else { ValueKind::TextOfStruct };
    for i in &n.items {
        match i {
            Item::Elem(c) => {
                let empty = crate::refmodel::SNode::default();
                let sub = schema.child(&c.name).map(|s| &s.node).unwrap_or(&empty);
                expected_values(c, sub, false, out)
            }
            Item::Text(t) => {
                let u = unescape(t);
                if !u.trim().is_empty() {
                    out.push((u.trim().to_string(), text_kind));
                }
            }
            Item::CData(t) => {
                if !t.trim().is_empty() {
                    out.push((t.trim().to_string(), text_kind));
                }
            }
            _ => {}
        }
    }
}

pub struct FarmSpec {
    pub prop: &'static str,
    pub flavor: Flavor,
    pub preset: Preset,
    pub deny_variant: bool,
    /// side condition on every document
    pub admit: fn(&Node) -> bool,
    pub max_programs: usize,
}

pub struct Collected {
    pub programs: Vec<Program>,
    /// per program, per document: the history (xml list) that produced it first and the expected values
    pub origin: Vec<Vec<String>>,
    pub expected: Vec<Vec<Vec<(String, ValueKind)>>>,
    index: HashMap<String, usize>,
    pub histories: u64,
    pub dropped_by_cap: u64,
}

impl Collected {
    pub fn new() -> Collected {
        Collected { programs: Vec::new(), origin: Vec::new(), expected: Vec::new(), index: HashMap::new(), histories: 0, dropped_by_cap: 0 }
    }

    /// add one history (already decorated roots); returns false when rejected by the side condition
    pub fn add(&mut self, ctx: &Ctx, spec: &FarmSpec, roots: &[Node]) -> bool {
        if !roots.iter().all(|r| (spec.admit)(r)) {
            return false;
        }
        let entries: Vec<DocEntry> = roots.iter().map(|r| DocEntry::from_root(r.clone())).collect();
        let refs: Vec<&DocEntry> = entries.iter().collect();
        let el = match run_history(&refs) {
            Ok(e) => e,
            Err(m) => {
                ctx.report(Violation {
                    class: "parse-failed".into(),
                    summary: format!("well-formed history rejected: {} | {}", m, refs[0].xml),
                    replay: docs_json(&refs),
                    rank: self.histories,
                });
                return true;
            }
        };
        self.histories += 1;
        let source = match subject::guarded(|| subject::render(&el, spec.preset, false)) {
            Ok(s) => s,
            Err(p) => {
                ctx.report(Violation {
                    class: "render-panic".into(),
                    summary: format!("rendering panicked: {} | {}", p, refs[0].xml),
                    replay: docs_json(&refs),
                    rank: self.histories,
                });
                return true;
            }
        };
        let idx = match self.index.get(&source) {
            Some(i) => *i,
            None => {
                if self.programs.len() >= spec.max_programs {
                    self.dropped_by_cap += 1;
                    return true;
                }
                self.index.insert(source.clone(), self.programs.len());
                self.programs.push(Program { source, docs: Vec::new() });
                self.origin.push(entries.iter().map(|e| e.xml.clone()).collect());
                self.expected.push(Vec::new());
                self.programs.len() - 1
            }
        };
        let schema = expected_schema(&refs);
        for (e, r) in entries.iter().zip(roots.iter()) {
            if self.programs[idx].docs.len() < 24 && !self.programs[idx].docs.contains(&e.xml) {
                self.programs[idx].docs.push(e.xml.clone());
                let mut vals = Vec::new();
                expected_values(r, &schema, true, &mut vals);
                self.expected[idx].push(vals);
            }
        }
        true
    }
}

fn decorated(n: &Node) -> Node {
    let mut m = n.clone();
    let mut c = 0usize;
    decorate(&mut m, &mut c);
    m
}

/// plain-name part of the case space: single documents and histories
pub fn plain_cases(ctx: &Ctx, spec: &FarmSpec, col: &mut Collected, w_single: usize, w_hist: usize, hist_len: usize) {
    let mut cfg = plain_cfg(w_single);
    cfg.kinds = vec![Kind::Text, Kind::CData];
    let sp = Space::new(cfg);
    for i in 0..sp.len() {
        let n = sp.get(i);
        if data_oriented(&n, false) {
            col.add(ctx, spec, &[decorated(&n)]);
        }
    }
    // whitespace between children (smaller space)
    let mut cfg = plain_cfg(w_single.min(4));
    cfg.kinds = vec![Kind::Ws];
    cfg.anames = vec!["x".into()];
    let sp = Space::new(cfg);
    for i in 0..sp.len() {
        let n = sp.get(i);
        if data_oriented(&n, true) {
            col.add(ctx, spec, &[decorated(&n)]);
        }
    }
    // real text in one occurrence, whitespace-only text in another (element without children)
    let mut cfg = plain_cfg(w_single.min(4));
    cfg.kinds = vec![Kind::Text, Kind::Ws];
    cfg.anames = vec![];
    cfg.both_empty = false;
    let sp = Space::new(cfg);
    for i in 0..sp.len() {
        let n = sp.get(i);
        if data_oriented(&n, false) {
            col.add(ctx, spec, &[decorated(&n)]);
        }
    }
    let alpha: Vec<Node> = {
        let mut cfg = plain_cfg(w_hist);
        cfg.kinds = vec![Kind::Text, Kind::CData];
        let sp = Space::new(cfg);
        (0..sp.len()).map(|i| sp.get(i)).filter(|n| data_oriented(n, false)).collect()
    };
    let total = (alpha.len() as u64).pow(hist_len as u32);
    for idx in 0..total {
        let mut c = idx;
        let mut roots = Vec::new();
        for _ in 0..hist_len {
            roots.push(decorated(&alpha[(c % alpha.len() as u64) as usize]));
            c /= alpha.len() as u64;
        }
        col.add(ctx, spec, &roots);
    }
}

/// histories d1, (a document without children), d3: a position present / absent / present again
pub fn absent_middle_cases(ctx: &Ctx, spec: &FarmSpec, col: &mut Collected, w: usize, structure_only: bool) {
    let mut cfg = plain_cfg(w);
    cfg.kinds = if structure_only { vec![] } else { vec![Kind::Text] };
    if structure_only {
        cfg.anames = vec![];
    }
    cfg.both_empty = false;
    let sp = Space::new(cfg);
    let alpha: Vec<Node> = (0..sp.len()).map(|i| sp.get(i)).filter(|n| data_oriented(n, false)).collect();
    let mut middle = Node::new("r");
    middle.self_closing = true;
    for a in &alpha {
        for b in &alpha {
            col.add(ctx, spec, &[decorated(a), middle.clone(), decorated(b)]);
        }
    }
}

/// histories d1, d2, d1 over structure-only documents: a child present, absent (other child), present again
pub fn aba_cases(ctx: &Ctx, spec: &FarmSpec, col: &mut Collected, w: usize) {
    let mut cfg = plain_cfg(w);
    cfg.kinds = vec![];
    cfg.anames = vec![];
    cfg.both_empty = false;
    let sp = Space::new(cfg);
    let alpha: Vec<Node> = (0..sp.len()).map(|i| sp.get(i)).collect();
    for a in &alpha {
        for b in &alpha {
            col.add(ctx, spec, &[decorated(a), decorated(b), decorated(a)]);
        }
    }
}

/// nesting chains: the value sits at depth d
pub fn deep_cases(ctx: &Ctx, spec: &FarmSpec, col: &mut Collected) {
    for depth in [3usize, 10, 33, 64, 65, 66, 70, 100] {
        let mut node = el(&format!("e{}", depth), &["k"], vec![text()]);
        for level in (0..depth).rev() {
            node = el(&format!("e{}", level), &[], vec![Item::Elem(node)]);
        }
        col.add(ctx, spec, &[decorated(&node)]);
    }
}

fn el(name: &str, attrs: &[&str], items: Vec<Item>) -> Node {
    let mut n = Node::new(name);
    for a in attrs {
        n.attrs.push((a.to_string(), "v".into()));
    }
    n.items = items;
    n
}

fn text() -> Item {
    Item::Text("t".into())
}

/// name-adversarial part: fixed templates instantiated with one name or a pair of names
pub fn name_cases(ctx: &Ctx, spec: &FarmSpec, col: &mut Collected, names: &[PoolName], all_pairs: bool) {
    let elem_ok = |p: &PoolName| p.element;
    for p in names {
        let n = p.name;
        if elem_ok(p) {
            // the name as attribute, as struct-typed child carrying the same name below, as String child
            col.add(ctx, spec, &[decorated(&el("r", &[n], vec![Item::Elem(el(n, &["k"], vec![Item::Elem(el(n, &[], vec![text()]))]))]))]);
            // as root
            col.add(ctx, spec, &[decorated(&el(n, &["k"], vec![Item::Elem(el("a", &[], vec![text()]))]))]);
            // two occurrences with different children (each child optional), start/end and empty form
            col.add(ctx, spec, &[decorated(&el("r", &[], vec![
                Item::Elem(el(n, &[], vec![Item::Elem(el("a", &[], vec![text()]))])),
                Item::Elem(el(n, &[], vec![Item::Elem(el("b", &[], vec![text()]))])),
            ]))]);
            col.add(ctx, spec, &[
                decorated(&el(n, &[], vec![Item::Elem(el("a", &[], vec![text()])), Item::Elem(el("b", &["k"], vec![]))])),
                decorated(&el(n, &[], vec![Item::Elem(el("b", &[], vec![]))])),
            ]);
            // one element name at three places; only the later ones carry the name (as attribute / as child)
            col.add(ctx, spec, &[decorated(&el("r", &[], vec![
                Item::Elem(el("e", &["k"], vec![])),
                Item::Elem(el("w", &[], vec![Item::Elem(el("e", &[n], vec![]))])),
                Item::Elem(el("u", &[], vec![Item::Elem(el("e", &[], vec![Item::Elem(el(n, &[], vec![text()]))]))])),
            ]))]);
            // repeated and optional
            col.add(ctx, spec, &[decorated(&el("r", &[], vec![Item::Elem(el(n, &["k"], vec![])), Item::Elem(el(n, &[], vec![])), Item::Elem(el("a", &[], vec![]))])), decorated(&el("r", &[], vec![]))]);
        } else {
            col.add(ctx, spec, &[decorated(&el("r", &[n, "k"], vec![Item::Elem(el("a", &[n], vec![text()]))]))]);
            col.add(ctx, spec, &[decorated(&el("r", &[], vec![
                Item::Elem(el("e", &["k"], vec![])),
                Item::Elem(el("w", &[], vec![Item::Elem(el("e", &[n], vec![]))])),
            ]))]);
        }
    }
    // a name that the renderer has to number (String, Option, Vec, Self) next to the numbered form
    for n in ["string", "option", "vec", "self", "String"] {
        let numbered = format!("{}1", n);
        col.add(ctx, spec, &[decorated(&el("r", &[], vec![Item::Elem(el(n, &["k"], vec![])), Item::Elem(el(&numbered, &["k"], vec![]))]))]);
        col.add(ctx, spec, &[decorated(&el("r", &[], vec![Item::Elem(el(&numbered, &["k"], vec![])), Item::Elem(el(n, &["k"], vec![]))]))]);
    }
    // two leaf names whose qualified struct names concatenate alike (six names)
    for sep in ["_", "-", "."] {
        let ab = format!("a{}b", sep);
        let bc = format!("b{}c", sep);
        col.add(ctx, spec, &[decorated(&el("r", &[], vec![
            Item::Elem(el(&ab, &[], vec![Item::Elem(el("c", &["k"], vec![]))])),
            Item::Elem(el("d", &[], vec![Item::Elem(el("c", &["k"], vec![]))])),
            Item::Elem(el("a", &[], vec![Item::Elem(el(&bc, &["k"], vec![]))])),
            Item::Elem(el("e", &[], vec![Item::Elem(el(&bc, &["k"], vec![]))])),
        ]))]);
    }
    // names that are the join of other names with a separator: r/a<sep>b/c next to r/a/b<sep>c
    for sep in [".", "-", "_"] {
        let ab = format!("a{}b", sep);
        let bc = format!("b{}c", sep);
        col.add(ctx, spec, &[decorated(&el("r", &[], vec![
            Item::Elem(el(&ab, &["k"], vec![Item::Elem(el("c", &["k"], vec![]))])),
            Item::Elem(el("a", &["k"], vec![Item::Elem(el(&bc, &["k"], vec![]))])),
        ]))]);
    }
    let snake = |s: &str| s.to_string().to_valid_key("r");
    let pascal = |s: &str| s.to_string().to_pascal_case();
    for pair in subsets(names.len(), 2) {
        let (p, q) = (&names[pair[0]], &names[pair[1]]);
        let prone = snake(p.name) == snake(q.name) || pascal(p.name) == pascal(q.name) || p.category == q.category;
        if !all_pairs && !prone {
            continue;
        }
        let (n, m) = (p.name, q.name);
        if p.element && q.element {
            // siblings that both get a struct; the same pair one level down
            col.add(ctx, spec, &[decorated(&el("r", &[], vec![Item::Elem(el(n, &["k"], vec![])), Item::Elem(el(m, &["k"], vec![Item::Elem(el(n, &["k"], vec![]))]))]))]);
            // siblings typed String, with both names as attributes of the parent
            col.add(ctx, spec, &[decorated(&el("r", &[n, m], vec![Item::Elem(el(n, &[], vec![text()])), Item::Elem(el(m, &[], vec![text()]))]))]);
        } else {
            col.add(ctx, spec, &[decorated(&el("r", &[n, m], vec![Item::Elem(el("a", &[m, n], vec![text()]))]))]);
        }
    }
}

pub fn judge_results(ctx: &Ctx, spec: &FarmSpec, col: &Collected, results: &[ProgResult]) -> (u64, u64) {
    let mut runs = 0u64;
    let mut ok_runs = 0u64;
    for (i, r) in results.iter().enumerate() {
        let replay = json!({"docs": col.origin[i], "all_docs_of_program": col.programs[i].docs});
        let mk = |class: &str, msg: String| Violation {
            class: class.to_string(),
            summary: format!("{} | program inferred from: {}", msg, col.origin[i].join(" ++ ")),
            replay: replay.clone(),
            rank: i as u64,
        };
        if let Some(e) = &r.compile_error {
            ctx.report(mk("compile-error", format!("rustc rejects the rendered source: {}", e)));
            continue;
        }
        let variants: Vec<&str> = if spec.deny_variant { vec!["plain", "deny"] } else { vec!["plain"] };
        for v in variants {
            let per_doc = r.runs.get(v);
            for (d, doc) in col.programs[i].docs.iter().enumerate() {
                runs += 1;
                let run = per_doc.and_then(|p| p.get(d)).and_then(|x| x.as_ref());
                match run {
                    None => ctx.machinery_error(format!("no result for program {} variant {} document {}", i, v, d)),
                    Some(run) if !run.ok => ctx.report(mk(
                        &format!("deserialize-error/{}", v),
                        format!("from_str fails ({} variant) on `{}`: {}", v, doc, run.error),
                    )),
                    Some(run) => {
                        ok_runs += 1;
                        let mut leaves: Vec<String> = run.leaves.iter().map(|l| l.trim().to_string()).collect();
                        for (want, kind) in &col.expected[i][d] {
                            match leaves.iter().position(|l| l == want) {
                                Some(p) => {
                                    leaves.remove(p);
                                }
                                None => {
                                    let class = value_class(spec, &col.programs[i].source, *kind);
                                    let is_text = &(*kind != ValueKind::Attribute);
                                    ctx.report(mk(
                                        &class,
                                        format!("{} `{}` of `{}` is not in the deserialised value ({} variant; leaves {:?})", if *is_text { "text" } else { "attribute value" }, want, doc, v, run.leaves),
                                    ));
                                    break;
                                }
                            }
                        }
                    }
                }
            }
        }
    }
    (runs, ok_runs)
}

/// class of a dropped value. For serde-xml-rs a dropped text of an element that has a struct, in a
/// program that binds text to `$text`, is the known finding C13 text-dropped/struct-text-bound-to-$text
fn value_class(spec: &FarmSpec, source: &str, kind: ValueKind) -> String {
    match kind {
        ValueKind::Attribute => "attribute-value-dropped".into(),
        ValueKind::TextOfStringTyped => "text-dropped/string-typed-element".into(),
        ValueKind::TextOfStruct => {
            if spec.flavor == Flavor::SerdeXmlRs && source.contains("#[serde(rename = \"$text\")]") {
                "text-dropped/struct-text-bound-to-$text".into()
            } else {
                "text-dropped/struct-text".into()
            }
        }
    }
}

pub fn run_spec(ctx: &Ctx, spec: &FarmSpec, names: &[PoolName]) {
    let mut col = Collected::new();
    match ctx.tier {
        Tier::Quick => {
            plain_cases(ctx, spec, &mut col, 4, 2, 2);
            absent_middle_cases(ctx, spec, &mut col, 2, true);
            aba_cases(ctx, spec, &mut col, 2);
            deep_cases(ctx, spec, &mut col);
            name_cases(ctx, spec, &mut col, names, false);
        }
        Tier::Thorough => {
            plain_cases(ctx, spec, &mut col, 5, 2, 2);
            absent_middle_cases(ctx, spec, &mut col, 2, false);
            absent_middle_cases(ctx, spec, &mut col, 3, true);
            aba_cases(ctx, spec, &mut col, 3);
            deep_cases(ctx, spec, &mut col);
            name_cases(ctx, spec, &mut col, names, true);
            // triples of the smallest documents
            plain_cases(ctx, spec, &mut col, 0, 1, 3);
        }
    }
    let farm = Farm::new(ctx, spec.prop, spec.flavor);
    let t0 = std::time::Instant::now();
    let results = match farm.run(ctx, &col.programs, spec.deny_variant) {
        Ok(r) => r,
        Err(e) => return ctx.machinery_error(format!("program farm: {}", e)),
    };
    let farm_s = t0.elapsed().as_secs_f64();
    let (runs, ok_runs) = judge_results(ctx, spec, &col, &results);
    let docs: usize = col.programs.iter().map(|p| p.docs.len()).sum();
    ctx.set("evaluations", json!(runs));
    ctx.set("distinct_nontrivial", json!(col.programs.len()));
    ctx.set("programs", json!(col.programs.len()));
    ctx.set("documents_executed", json!(docs));
    ctx.set("histories_rendered", json!(col.histories));
    ctx.set("successful_deserialisations", json!(ok_runs));
    ctx.set("programs_not_compiled_because_of_cap", json!(col.dropped_by_cap));
    ctx.set("exhaustive", json!(col.dropped_by_cap == 0));
    ctx.set("farm_wall_s", json!((farm_s * 10.0).round() / 10.0));
    for k in 0..3u64 {
        if col.programs.is_empty() {
            break;
        }
        let i = (crate::ctx::mix(ctx.seed, k) % col.programs.len() as u64) as usize;
        ctx.push("samples", json!({"program": col.programs[i].source, "documents": col.programs[i].docs}));
    }
}

pub fn c02_spec() -> FarmSpec {
    fn admit(n: &Node) -> bool {
        local_names_distinct(n)
    }
    FarmSpec { prop: "C02", flavor: Flavor::QuickXml, preset: Preset::QuickXml, deny_variant: true, admit, max_programs: 12_000 }
}

pub fn run(ctx: &Ctx) {
    let spec = c02_spec();
    run_spec(ctx, &spec, &pool(&[]));
    ctx.set(
        "rule",
        json!("cases: every data-oriented document of the plain space (element content = one text/CDATA item, or children, or nothing; also whitespace between children), every ordered pair (thorough: also triples) of small documents as parse+extend history, every triple d1, <r/>, d3 (a position present, absent, present again), and fixed templates instantiated with every name of the adversarial pool and with collision-prone pairs (thorough: all pairs); every site carries a distinct value. Cases are rendered with the quick-xml preset and deduplicated by rendered source: one program per distinct text (distinct_nontrivial = programs). Each program is compiled by rustc unchanged behind `use serde::{Deserialize, Serialize};`, once as is and once with #[serde(deny_unknown_fields)] on every struct, and quick_xml::de::from_str::<FirstStruct> runs on each source document; the leaf strings of the value (collected through its Serialize impl) must include every attribute value and every non-blank text content, unescaped and trimmed. evaluations = (program, variant, document) executions"),
    );
    ctx.assume("rustc 1.95 / serde 1.0.229 / quick-xml 0.37.5 with features serialize + overlapped-lists are the oracles");
}

pub fn replay(ctx: &Ctx, case: &Value) {
    replay_spec(ctx, &c02_spec(), case)
}

pub fn replay_spec(ctx: &Ctx, spec: &FarmSpec, case: &Value) {
    let docs = match docs_from_json(case) {
        Ok(d) => d,
        Err(e) => return ctx.machinery_error(e),
    };
    let mut col = Collected::new();
    let roots: Vec<Node> = docs.iter().filter_map(|d| d.root().cloned()).collect();
    if !col.add(ctx, spec, &roots) {
        return ctx.machinery_error("the replay history is outside the property's side condition".into());
    }
    // the other documents of the program, if recorded
    if let Some(extra) = case.get("all_docs_of_program").and_then(|d| d.as_array()) {
        for x in extra {
            if let Some(xml) = x.as_str() {
                if !col.programs.is_empty() && !col.programs[0].docs.iter().any(|d| d == xml) {
                    if let Ok(e) = DocEntry::from_xml(xml) {
                        if let Some(r) = e.root() {
                            col.programs[0].docs.push(e.xml.clone());
                            let mut vals = Vec::new();
                            let all: Vec<&DocEntry> = docs.iter().collect();
                            expected_values(r, &expected_schema(&all), true, &mut vals);
                            col.expected[0].push(vals);
                        }
                    }
                }
            }
        }
    }
    let farm = Farm::new(ctx, &format!("{}-replay", spec.prop), spec.flavor);
    match farm.run(ctx, &col.programs, spec.deny_variant) {
        Ok(r) => {
            judge_results(ctx, spec, &col, &r);
        }
        Err(e) => ctx.machinery_error(format!("program farm: {}", e)),
    }
}
