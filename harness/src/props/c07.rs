//! C07 — no panic, abort or hang on arbitrary input bytes.
//! All work runs in child processes (`xsgv c07-worker ...`): a panic is caught in the child, an
//! abort (stack overflow, allocation failure) or a hang kills only the child and is narrowed down
//! to the single input by re-running the block that was in progress.

use super::hist::{hex, materialise, unhex};
use crate::bytespace::*;
use crate::choice::{explore, Chooser};
use crate::ctx::{Ctx, Tier, Violation};
use crate::docspace::{Kind, SpaceCfg};
use crate::subject::{self, ChoiceReader, RCfg};
use serde_json::{json, Value};
use std::io::{BufRead, BufReader, Write};
use std::process::{Command, Stdio};
use std::time::{Duration, Instant};
use xml_schema_generator::{Element, Options, SortBy};

pub const PARTS: &[&str] = &["bytes", "tokens", "edits", "edits2", "long", "wide", "trees", "depth", "depth-unoptimised", "reader", "reader-docs"];

fn tier_of(s: &str) -> Tier {
    if s == "thorough" {
        Tier::Thorough
    } else {
        Tier::Quick
    }
}

fn valid_docs(w: usize, kinds: Vec<Kind>) -> Vec<Vec<u8>> {
    let mut cfg = SpaceCfg::plain(w);
    cfg.kinds = kinds;
    materialise(cfg).into_iter().map(|d| d.xml.into_bytes()).collect()
}

/// the input space of a part (depth and reader parts index their own cases)
fn space(part: &str, tier: Tier) -> Option<Box<dyn InputSpace>> {
    match part {
        "bytes" => Some(Box::new(Bytes {
            alphabet: tier.pick(BYTE_ALPHABET, BYTE_ALPHABET_THOROUGH).to_vec(),
            max_len: tier.pick(5, 6),
        })),
        "tokens" => Some(Box::new(Tokens { tokens: xml_tokens(), max_len: tier.pick(4, 5) })),
        "edits" => Some(Box::new(Edits::new(valid_docs(3, vec![Kind::Text, Kind::CData, Kind::Comment, Kind::PI]), false))),
        "edits2" => Some(Box::new(Edits::new(valid_docs(tier.pick(1, 2), vec![Kind::Text, Kind::CData, Kind::Comment]), true))),
        "long" => Some(Box::new(Listed(long_inputs(tier.pick(300, 1100))))),
        "wide" => Some(Box::new(Listed(wide_inputs(tier.pick(24, 40))))),
        "trees" => Some(Box::new(Listed(tree_inputs(tier.pick(4, 5))))),
        "reader" => Some(Box::new(Tokens { tokens: xml_tokens(), max_len: 3 })),
        "reader-docs" => Some(Box::new(Listed(valid_docs(tier.pick(3, 4), vec![Kind::Text, Kind::CData, Kind::Comment, Kind::PI])))),
        _ => None,
    }
}

pub fn reader_configs(tier: Tier) -> Vec<RCfg> {
    let mut out = Vec::new();
    let bools = [false, true];
    for trim in bools {
        for expand in bools {
            for check_end in bools {
                if tier == Tier::Quick {
                    out.push(RCfg { trim_text: trim, expand_empty_elements: expand, check_end_names: Some(check_end), ..Default::default() });
                } else {
                    for unmatched in bools {
                        for comments in bools {
                            out.push(RCfg {
                                trim_text: trim,
                                expand_empty_elements: expand,
                                check_end_names: Some(check_end),
                                allow_unmatched_ends: unmatched,
                                check_comments: comments,
                            });
                        }
                    }
                }
            }
        }
    }
    out
}

fn option_tuples() -> Vec<Options> {
    let mut out = Vec::new();
    for preset in 0..2 {
        for sorted in [false, true] {
            for derive in ["Serialize, Deserialize", ""] {
                let mut o = if preset == 0 { Options::quick_xml_de() } else { Options::serde_xml_rs() };
                o.sort = if sorted { SortBy::XmlName } else { SortBy::Unsorted };
                out.push(o.derive(derive));
            }
        }
    }
    out
}

fn base_states() -> Vec<Element<String>> {
    ["<a/>", "<a x=\"1\"><b/><p:a>t</p:a></a>", "<b><a><a/></a><a/></b>"]
        .iter()
        .map(|x| subject::parse(x.as_bytes()).expect("base state"))
        .collect()
}

const FOLLOW_UPS: &[&str] = &["<a/>", "<b><c/></b>", "<n><z/></n>", "<b/><a x=\"1\"><a/></a>"];

/// option values nobody would choose on purpose (rendering must still return)
fn odd_option_tuples() -> Vec<Options> {
    let mk = |text: &str, prefix: &str, derive: &str, sorted: bool| Options {
        text_identifier: text.to_string(),
        attribute_prefix: prefix.to_string(),
        derive: derive.to_string(),
        sort: if sorted { SortBy::XmlName } else { SortBy::Unsorted },
    };
    vec![
        mk("", "", "#[derive(", false),
        mk("\u{20ac}", "\u{20ac}", "#[derive(\u{20ac}", true),
        mk("$", "@", "#[derive()]", false),
        mk("\"", "\\", ")]", true),
        mk("text", "text", "\u{e9}", false),
        mk(" ", " ", ",", true),
    ]
}

struct Exerciser {
    cfgs: Vec<RCfg>,
    opts: Vec<Options>,
    odd_opts: Vec<Options>,
    bases: Vec<Element<String>>,
}

impl Exerciser {
    fn new(tier: Tier) -> Exerciser {
        Exerciser { cfgs: reader_configs(tier), opts: option_tuples(), odd_opts: odd_option_tuples(), bases: base_states() }
    }

    /// non-initial states: every value the input produced is extended once more by each follow-up
    /// document (and rendered), so that a state only this input reaches is also a starting point
    fn follow_ups(&self, el: &Element<String>, cfg: &RCfg, origin: &str, panics: &mut Vec<String>) -> u64 {
        let mut calls = 0;
        for f in FOLLOW_UPS {
            calls += 1;
            match subject::guarded(|| subject::extend_reader(el.clone(), f.as_bytes(), cfg)) {
                Err(p) => panics.push(format!("extend_struct with {} on the result of {}: {}", f, origin, p)),
                Ok(Ok(e2)) => {
                    calls += 1;
                    if let Err(p) = subject::guarded(|| e2.to_serde_struct(&self.opts[0])) {
                        panics.push(format!("to_serde_struct after {} + extend_struct with {}: {}", origin, f, p));
                    }
                }
                Ok(Err(_)) => {}
            }
        }
        calls
    }

    /// run everything C07 names on one input; returns (panic descriptions, calls made)
    fn exercise(&self, bytes: &[u8]) -> (Vec<String>, u64) {
        let mut panics = Vec::new();
        let mut calls = 0u64;
        for (ci, cfg) in self.cfgs.iter().enumerate() {
            calls += 1;
            match subject::guarded(|| subject::parse_reader(bytes, cfg)) {
                Err(p) => panics.push(format!("into_struct [{:?}]: {}", cfg, p)),
                Ok(Ok(el)) => {
                    for o in &self.opts {
                        calls += 1;
                        if let Err(p) = subject::guarded(|| el.to_serde_struct(o)) {
                            panics.push(format!("to_serde_struct after into_struct: {}", p));
                        }
                    }
                    if ci == 0 {
                        for o in &self.odd_opts {
                            calls += 1;
                            if let Err(p) = subject::guarded(|| el.to_serde_struct(o)) {
                                panics.push(format!("to_serde_struct with options {:?}: {}", (&o.text_identifier, &o.attribute_prefix, &o.derive), p));
                            }
                        }
                        calls += self.follow_ups(&el, cfg, "into_struct", &mut panics);
                    }
                }
                Ok(Err(_)) => {}
            }
            // extending is exercised under the first four configurations only (it shares the event loop)
            if ci < 4 {
                for base in &self.bases {
                    calls += 1;
                    match subject::guarded(|| subject::extend_reader(base.clone(), bytes, cfg)) {
                        Err(p) => panics.push(format!("extend_struct [{:?}]: {}", cfg, p)),
                        Ok(Ok(el)) => {
                            for o in self.opts.iter().take(2) {
                                calls += 1;
                                if let Err(p) = subject::guarded(|| el.to_serde_struct(o)) {
                                    panics.push(format!("to_serde_struct after extend_struct: {}", p));
                                }
                            }
                            if ci == 0 {
                                calls += self.follow_ups(&el, cfg, "extend_struct", &mut panics);
                            }
                        }
                        Ok(Err(_)) => {}
                    }
                }
            }
        }
        (panics, calls)
    }
}

/// an explicit list of inputs
pub struct Listed(pub Vec<Vec<u8>>);

impl InputSpace for Listed {
    fn len(&self) -> u64 {
        self.0.len() as u64
    }
    fn get(&self, i: u64) -> Vec<u8> {
        self.0[i as usize].clone()
    }
    fn describe(&self) -> String {
        format!("{} valid documents", self.0.len())
    }
}

/// every ordered tree up to `max_nodes` nodes with names from {a, A, b} (a / A share their PascalCase
/// form), the root named from the same set, at most one node decorated with attributes / text:
/// structural name patterns that the byte and token spaces are too short to reach
pub fn tree_inputs(max_nodes: usize) -> Vec<Vec<u8>> {
    use crate::props::names::{for_each_tree, PoolName, TreeParams};
    let names: Vec<PoolName> = ["a", "A", "b"].iter().map(|n| PoolName { name: n, category: "c07", element: true }).collect();
    let params = TreeParams { min_nodes: 1, max_nodes, max_decorated: 1, root_from_subset: true, shard: (0, 1) };
    let mut out = Vec::new();
    for_each_tree(&names, &params, &mut |root| {
        out.push(crate::dom::Doc::from_root(root.clone()).to_xml().into_bytes());
    });
    // names that differ only in their namespace prefix, as elements and as attributes of one element
    // (`<a p:a="v" a="v"/>`: the same local name twice among the attributes, prefixed one first)
    let prefixed: Vec<PoolName> = ["p:a", "a", "q:a"].iter().map(|n| PoolName { name: n, category: "c07", element: true }).collect();
    let params = TreeParams { min_nodes: 0, max_nodes: 2, max_decorated: 2, root_from_subset: true, shard: (0, 1) };
    for_each_tree(&prefixed, &params, &mut |root| {
        out.push(crate::dom::Doc::from_root(root.clone()).to_xml().into_bytes());
    });
    // forests: up to four top-level elements (the library accepts them), names from {a, b, n}, each
    // empty, with a child or with an attribute; with and without leading character data
    let shapes = ["<N/>", "<N><c/></N>", "<N k=\"v\"></N>"];
    let names = ["a", "b", "n"];
    let units: Vec<String> = names.iter().flat_map(|n| shapes.iter().map(move |s| s.replace('N', n))).collect();
    for len in 2..=4usize {
        // shapes other than the empty one are allowed for one element only (keeps the list small)
        let empties: Vec<&String> = units.iter().step_by(shapes.len()).collect();
        let mut idx = vec![0usize; len];
        loop {
            for special in 0..=len {
                let variants: Vec<&String> = if special == len { vec![&units[0]] } else { units.iter().filter(|u| u.starts_with(&format!("<{}", names[idx[special]]))).skip(1).collect() };
                for v in variants {
                    let mut doc = String::new();
                    for (i, ni) in idx.iter().enumerate() {
                        if i == special {
                            doc.push_str(v);
                        } else {
                            doc.push_str(empties[*ni]);
                        }
                    }
                    out.push(doc.clone().into_bytes());
                    if special == len {
                        out.push(format!("t{}", doc).into_bytes());
                    }
                }
            }
            let mut k = 0;
            while k < len {
                idx[k] += 1;
                if idx[k] < names.len() {
                    break;
                }
                idx[k] = 0;
                k += 1;
            }
            if k == len {
                break;
            }
        }
    }
    out
}

/// wide elements: n attributes (and n children) named prefix + number, plus one name with a trailing
/// letter, in every rotation of the ascending and of the descending order (sorting code sees many
/// different input orders of names whose numeric and lexicographic orders disagree)
pub fn wide_inputs(max_n: usize) -> Vec<Vec<u8>> {
    let mut out = Vec::new();
    for n in (2..=max_n).filter(|n| *n <= 4 || *n >= 16) {
        let mut base: Vec<String> = (1..=n).map(|i| format!("line{}", i)).collect();
        for extra_pos in [0, n / 2, n] {
            let mut names = base.clone();
            names.insert(extra_pos, "line1b".to_string());
            for descending in [false, true] {
                let mut v = names.clone();
                if descending {
                    v.reverse();
                }
                for rot in 0..v.len() {
                    let mut w = v.clone();
                    w.rotate_left(rot);
                    let attrs: String = w.iter().map(|a| format!(" {}=\"v\"", a)).collect();
                    out.push(format!("<r{}/>", attrs).into_bytes());
                    if rot % 4 == 0 {
                        let kids: String = w.iter().map(|a| format!("<{} k=\"v\"/>", a)).collect();
                        out.push(format!("<r>{}</r>", kids).into_bytes());
                        // the same element twice, the second time with its attributes in this other order
                        let first: String = v.iter().map(|a| format!(" {}=\"v\"", a)).collect();
                        out.push(format!("<r><p{}/><p{}/></r>", first, attrs).into_bytes());
                    }
                }
            }
        }
        base.clear();
    }
    out
}

/// long names, values and character data with a multi-byte character at every offset
pub fn long_inputs(max_offset: usize) -> Vec<Vec<u8>> {
    let mut out = Vec::new();
    for pos in 0..=max_offset {
        for ch in ["é", "𝄞"] {
            let body = format!("{}{}aaa", "a".repeat(pos), ch);
            out.push(format!("<r>{}</r>", body).into_bytes());
            out.push(format!("<r><![CDATA[{}]]></r>", body).into_bytes());
            out.push(format!("<r k=\"{}\"/>", body).into_bytes());
            out.push(format!("<r><n{}/></r>", body).into_bytes());
            out.push(format!("<r n{}=\"v\"><b/></r>", body).into_bytes());
            out.push(format!("<r><!--{}--><b>{}</b><b/></r>", body, body).into_bytes());
        }
    }
    // two siblings whose long names share a long prefix
    for len in [30usize, 60, 62, 63, 64, 65, 66, 70, 100, 127, 128, 129, 255, 256, 257, 300] {
        let l = "n".repeat(len);
        out.push(format!("<r><{l}a/><{l}b/><{l}a k=\"v\"/></r>", l = l).into_bytes());
        out.push(format!("<r {l}a=\"v\" {l}b=\"v\"><{l}a>t</{l}a></r>", l = l).into_bytes());
        out.push(format!("<r><{l}A/><{l}a/></r>", l = l).into_bytes());
    }
    // sibling names that collide after normalisation and end in a long number
    for digits in 1..=24usize {
        for d in ["9", "1", "0"] {
            let num = d.repeat(digits);
            out.push(format!("<r><e_{n}/><E_{n}/><e_{n} k=\"v\"/></r>", n = num).into_bytes());
            out.push(format!("<r e_{n}=\"v\" E_{n}=\"v\"><e_{n}>t</e_{n}></r>", n = num).into_bytes());
            out.push(format!("<r><e{n}/><E{n}/></r>", n = num).into_bytes());
        }
    }
    out
}

fn reaches_element(bytes: &[u8]) -> bool {
    use quick_xml::events::Event;
    let mut r = quick_xml::reader::Reader::from_reader(bytes);
    let mut buf = Vec::new();
    loop {
        match r.read_event_into(&mut buf) {
            Ok(Event::Start(_)) | Ok(Event::Empty(_)) => return true,
            Ok(Event::Eof) | Err(_) => return false,
            _ => {}
        }
        buf.clear();
    }
}

// --- depth templates ---------------------------------------------------------------------------

pub const DEPTH_TEMPLATES: usize = 6;
pub const MAX_DEPTH: usize = 200;

/// occurrence counts around the limits of 8- and 16-bit counters: `<r>` with n children `<a/>`
pub const COUNTER_CASES: &[usize] = &[255, 256, 257, 65_535, 65_536, 65_537, 70_000];

pub fn depth_case(idx: u64) -> Vec<u8> {
    if idx as usize >= MAX_DEPTH * DEPTH_TEMPLATES {
        let n = COUNTER_CASES[(idx as usize - MAX_DEPTH * DEPTH_TEMPLATES) % COUNTER_CASES.len()];
        let mut s = String::with_capacity(n * 4 + 8);
        s.push_str("<r>");
        for _ in 0..n {
            s.push_str("<a/>");
        }
        s.push_str("</r>");
        return s.into_bytes();
    }
    let depth = (idx as usize / DEPTH_TEMPLATES) + 1;
    let t = idx as usize % DEPTH_TEMPLATES;
    let mut s = String::new();
    let name = |i: usize| match t {
        1 => {
            if i % 2 == 0 {
                "a"
            } else {
                "b"
            }
        }
        _ => "a",
    };
    for i in 0..depth {
        match t {
            2 => s.push_str(&format!("<{} x=\"1\" y=\"2\">", name(i))),
            5 => s.push_str(&format!("<{}>t", name(i))),
            _ => s.push_str(&format!("<{}>", name(i))),
        }
    }
    if t == 4 {
        // nest, then repeat a sibling at the deepest level
        s.push_str("<c/><c/>");
    }
    if t != 3 {
        for i in (0..depth).rev() {
            s.push_str(&format!("</{}>", name(i)));
        }
    }
    s.into_bytes()
}

fn depth_exercise(bytes: &[u8]) -> Vec<String> {
    // on a thread with the default 2 MiB stack: parse, extend with itself, render
    let data = bytes.to_vec();
    let h = std::thread::Builder::new()
        .stack_size(2 << 20)
        .spawn(move || {
            let mut panics = Vec::new();
            match subject::guarded(|| subject::parse(&data)) {
                Err(p) => panics.push(format!("into_struct: {}", p)),
                Ok(Ok(el)) => {
                    for o in option_tuples() {
                        if let Err(p) = subject::guarded(|| el.to_serde_struct(&o)) {
                            panics.push(format!("to_serde_struct: {}", p));
                        }
                    }
                    match subject::guarded(|| subject::extend(el.clone(), &data)) {
                        Err(p) => panics.push(format!("extend_struct: {}", p)),
                        Ok(Ok(e2)) => {
                            if let Err(p) = subject::guarded(|| subject::render_all(&e2)) {
                                panics.push(format!("to_serde_struct after extend: {}", p));
                            }
                        }
                        Ok(Err(_)) => {}
                    }
                }
                Ok(Err(_)) => {}
            }
            panics
        })
        .expect("spawn");
    h.join().unwrap_or_else(|_| vec!["worker thread died".to_string()])
}

// --- worker (child process) -----------------------------------------------------------------------

pub fn worker_len(part: &str, tier: Tier) -> u64 {
    match part {
        "depth" | "depth-unoptimised" => (MAX_DEPTH * DEPTH_TEMPLATES + COUNTER_CASES.len()) as u64,
        _ => space(part, tier).map(|s| s.len()).unwrap_or(0),
    }
}

/// `xsgv c07-worker <tier> <part> <start> <end> <step>`
pub fn worker_main(args: &[String]) -> i32 {
    let tier = tier_of(&args[1]);
    let part = args[2].as_str();
    let start: u64 = args[3].parse().unwrap_or(0);
    let end: u64 = args[4].parse().unwrap_or(0);
    let step: u64 = args[5].parse().unwrap_or(1).max(1);
    subject::silence_panics();
    let stdout = std::io::stdout();
    let mut out = stdout.lock();
    let sp = space(part, tier);
    let ex = Exerciser::new(tier);
    let mut found: Vec<Value> = Vec::new();
    let mut calls = 0u64;
    let mut nontrivial = 0u64;
    let mut executions = 0u64;
    let bound = tier.pick(2, 2);
    let mut i = start;
    while i < end {
        if (i - start) % step == 0 {
            let _ = writeln!(out, "AT {}", i);
            let _ = out.flush();
        }
        match part {
            "depth" => {
                let bytes = depth_case(i);
                calls += 1;
                nontrivial += 1;
                for p in depth_exercise(&bytes) {
                    found.push(json!({"class": "panic/depth", "summary": format!("depth case {} (depth {}, template {}): {}", i, i as usize / DEPTH_TEMPLATES + 1, i as usize % DEPTH_TEMPLATES, p), "replay": {"part": "depth", "index": i}, "rank": i}));
                }
            }
            "reader" | "reader-docs" => {
                let bytes = sp.as_ref().unwrap().get(i);
                if reaches_element(&bytes) {
                    nontrivial += 1;
                }
                let bases = &ex.bases;
                let st = explore(
                    bound,
                    50_000,
                    &|ch: &Chooser| {
                        let a = subject::guarded(|| {
                            subject::parse_reader(ChoiceReader::new(&bytes, ch.clone(), true), &RCfg::default()).map(|e| subject::render_all(&e)).is_ok()
                        });
                        let b = subject::guarded(|| {
                            subject::extend_reader(bases[1].clone(), ChoiceReader::new(&bytes, ch.clone(), true), &RCfg::default()).map(|e| subject::render_all(&e)).is_ok()
                        });
                        (a.err(), b.err())
                    },
                    &mut |choices, _, (a, b): (Option<String>, Option<String>)| {
                        for p in [a, b].into_iter().flatten() {
                            found.push(json!({"class": "panic/reader", "summary": format!("reader answers {:?} on {:?}: {}", choices, String::from_utf8_lossy(&bytes), p), "replay": {"part": part, "bytes_hex": hex(&bytes), "choices": choices}, "rank": i}));
                        }
                    },
                );
                executions += st.executions;
                calls += st.executions * 2;
            }
            _ => {
                let bytes = sp.as_ref().unwrap().get(i);
                let (panics, c) = ex.exercise(&bytes);
                calls += c;
                if reaches_element(&bytes) {
                    nontrivial += 1;
                }
                for p in panics {
                    let loc = subject::LAST_PANIC_LOCATION.with(|l| l.borrow().clone()).unwrap_or_default();
                    found.push(json!({"class": format!("panic/{}", loc), "summary": format!("{:?}: {}", String::from_utf8_lossy(&bytes), p), "replay": {"part": part, "bytes_hex": hex(&bytes)}, "rank": i}));
                }
            }
        }
        if found.len() > 200 {
            found.truncate(200);
        }
        i += 1;
    }
    let _ = writeln!(out, "DONE {}", json!({"inputs": end.saturating_sub(start), "calls": calls, "nontrivial": nontrivial, "executions": executions, "found": found}));
    0
}

// --- parent ---------------------------------------------------------------------------------------

struct ChildOutcome {
    done: Option<Value>,
    last_at: Option<u64>,
    status: String,
    timed_out: bool,
}

fn run_child(tier: Tier, part: &str, start: u64, end: u64, step: u64, timeout: Duration) -> ChildOutcome {
    // the unoptimised depth probe is a separate tiny binary (library built with opt-level 0)
    let (exe, args): (std::path::PathBuf, Vec<String>) = if part == "depth-unoptimised" {
        (
            std::path::PathBuf::from(format!("{}/target/depthprobe/debug/depthprobe", crate::ctx::verif_dir())),
            vec![start.to_string(), end.to_string()],
        )
    } else {
        (
            std::env::current_exe().expect("current exe"),
            vec!["c07-worker".into(), tier.name().into(), part.into(), start.to_string(), end.to_string(), step.to_string()],
        )
    };
    let mut child = match Command::new(exe)
        .args(args)
        .stdin(Stdio::null())
        .stdout(Stdio::piped())
        .stderr(Stdio::null())
        .spawn()
    {
        Ok(c) => c,
        Err(e) => return ChildOutcome { done: None, last_at: None, status: format!("spawn failed: {}", e), timed_out: false },
    };
    let stdout = child.stdout.take().expect("stdout");
    let reader = std::thread::spawn(move || {
        let mut last_at = None;
        let mut done = None;
        for line in BufReader::new(stdout).lines().map_while(Result::ok) {
            if let Some(n) = line.strip_prefix("AT ") {
                last_at = n.trim().parse::<u64>().ok();
            } else if let Some(j) = line.strip_prefix("DONE ") {
                done = serde_json::from_str::<Value>(j).ok();
            }
        }
        (last_at, done)
    });
    let t0 = Instant::now();
    let mut timed_out = false;
    let status = loop {
        match child.try_wait() {
            Ok(Some(s)) => break format!("{}", s),
            Ok(None) => {
                if t0.elapsed() > timeout {
                    let _ = child.kill();
                    let _ = child.wait();
                    timed_out = true;
                    break "killed after timeout".to_string();
                }
                std::thread::sleep(Duration::from_millis(20));
            }
            Err(e) => break format!("wait failed: {}", e),
        }
    };
    let (last_at, done) = reader.join().unwrap_or((None, None));
    ChildOutcome { done, last_at, status, timed_out }
}

fn part_input(part: &str, tier: Tier, idx: u64) -> Vec<u8> {
    match part {
        "depth" | "depth-unoptimised" => depth_case(idx),
        _ => space(part, tier).map(|s| s.get(idx)).unwrap_or_default(),
    }
}

pub fn run(ctx: &Ctx) {
    ctx.set("exhaustive", json!(true));
    let tier = ctx.tier;
    let parts: Vec<&str> = match tier {
        Tier::Quick => vec!["bytes", "tokens", "edits", "long", "wide", "trees", "depth", "depth-unoptimised", "reader", "reader-docs"],
        Tier::Thorough => vec!["bytes", "tokens", "edits", "edits2", "long", "wide", "trees", "depth", "depth-unoptimised", "reader", "reader-docs"],
    };
    let mut total_calls = 0u64;
    let mut total_inputs = 0u64;
    let mut total_nontrivial = 0u64;
    for part in parts {
        let n = worker_len(part, tier);
        let jobs = (ctx.threads as u64 * 4).min(n.max(1));
        let per = n.div_ceil(jobs);
        let ranges: Vec<(u64, u64)> = (0..jobs).map(|j| (j * per, ((j + 1) * per).min(n))).filter(|(a, b)| a < b).collect();
        let step = if part == "depth-unoptimised" { 1 } else { (per / 50).max(1) };
        let next = std::sync::atomic::AtomicUsize::new(0);
        let results: std::sync::Mutex<Vec<(u64, u64, ChildOutcome)>> = std::sync::Mutex::new(Vec::new());
        // a job normally takes a few seconds; a child that needs longer than this is treated as hung
        let child_timeout = Duration::from_secs(ctx.tier.pick(75, 900));
        let stop = std::sync::atomic::AtomicBool::new(false);
        std::thread::scope(|s| {
            for _ in 0..ctx.threads {
                s.spawn(|| loop {
                    let j = next.fetch_add(1, std::sync::atomic::Ordering::Relaxed);
                    if j >= ranges.len() || stop.load(std::sync::atomic::Ordering::Relaxed) {
                        break;
                    }
                    let (a, b) = ranges[j];
                    let o = run_child(tier, part, a, b, step, child_timeout);
                    if o.done.is_none() {
                        // one dead or hung child is a verdict for this part: do not start further jobs
                        stop.store(true, std::sync::atomic::Ordering::Relaxed);
                    }
                    results.lock().unwrap().push((a, b, o));
                });
            }
        });
        let mut inputs_done = 0u64;
        let mut part_calls = 0u64;
        let mut part_nontrivial = 0u64;
        let mut part_exec = 0u64;
        let mut failed: Vec<(u64, u64, ChildOutcome)> = Vec::new();
        for (a, b, o) in results.into_inner().unwrap() {
            match &o.done {
                Some(d) => {
                    inputs_done += d["inputs"].as_u64().unwrap_or(0);
                    part_calls += d["calls"].as_u64().unwrap_or(0);
                    part_nontrivial += d["nontrivial"].as_u64().unwrap_or(0);
                    part_exec += d["executions"].as_u64().unwrap_or(0);
                    for f in d["found"].as_array().cloned().unwrap_or_default() {
                        ctx.report(Violation {
                            class: f["class"].as_str().unwrap_or("panic").to_string(),
                            summary: f["summary"].as_str().unwrap_or("").to_string(),
                            replay: f["replay"].clone(),
                            rank: f["rank"].as_u64().unwrap_or(0),
                        });
                    }
                }
                None => failed.push((a, b, o)),
            }
        }
        if !failed.is_empty() {
            ctx.set("exhaustive", json!(false));
            // children died or hung: narrow every such block down to one input, all blocks in parallel
            let narrows: Vec<(u64, u64, String, ChildOutcome)> = std::thread::scope(|s| {
                let hs: Vec<_> = failed
                    .iter()
                    .map(|(a, b, o)| {
                        let block = o.last_at.unwrap_or(*a);
                        let block_end = (block + step).min(*b);
                        let status = o.status.clone();
                        s.spawn(move || (block, block_end, status, run_child(tier, part, block, block_end, 1, Duration::from_secs(45))))
                    })
                    .collect();
                hs.into_iter().filter_map(|h| h.join().ok()).collect()
            });
            let mut confirmed = 0;
            for (block, block_end, status, narrow) in &narrows {
                if narrow.done.is_some() {
                    continue;
                }
                confirmed += 1;
                let idx = narrow.last_at.unwrap_or(*block);
                let bytes = part_input(part, tier, idx);
                let kind = if narrow.timed_out { "hang" } else { "abort" };
                ctx.report(Violation {
                    class: format!("{}/{}", kind, part),
                    summary: format!(
                        "child process {} on input #{} of part {} ({}; first run of the block {}..{}: {}): {:?}",
                        if narrow.timed_out { "did not terminate within 45 s" } else { "died" },
                        idx,
                        part,
                        narrow.status,
                        block,
                        block_end,
                        status,
                        String::from_utf8_lossy(&bytes[..bytes.len().min(120)])
                    ),
                    replay: json!({"part": part, "index": idx, "bytes_hex": hex(&bytes)}),
                    rank: idx,
                });
            }
            if confirmed == 0 {
                for (block, block_end, status, _) in &narrows {
                    ctx.machinery_error(format!(
                        "part {}: a child ended with `{}` but its block {}..{} completes when re-run alone",
                        part, status, block, block_end
                    ));
                }
            }
        }
        total_calls += part_calls;
        total_inputs += inputs_done;
        total_nontrivial += part_nontrivial;
        let describe = match part {
            "depth-unoptimised" => format!("the same nesting depths 1..={} x {} templates and occurrence counts {:?} of one child (limits of 8- and 16-bit counters; overflow checks are on in this build) with the library compiled at opt-level 0 (largest stack frames), on a 2 MiB stack", MAX_DEPTH, DEPTH_TEMPLATES, COUNTER_CASES),
            "depth" => format!("nesting depths 1..={} x {} templates (one name; two alternating names; with attributes; unclosed; nest then repeated sibling; text at every level), each parsed, extended with itself and rendered on a 2 MiB stack; plus `<r>` with n children `<a/>` for n in {:?}", MAX_DEPTH, DEPTH_TEMPLATES, COUNTER_CASES),
            "reader" | "reader-docs" => format!("{} under every sequence of BufRead answers (all / 1 / 2 / 3 / 7 bytes, Interrupted, hard I/O error) with <= 2 deviations: {} executions", space(part, tier).map(|s| s.describe()).unwrap_or_default(), part_exec),
            _ => space(part, tier).map(|s| s.describe()).unwrap_or_default(),
        };
        ctx.push("parts", json!({"part": part, "space": describe, "size": n, "inputs_done": inputs_done, "calls": part_calls, "inputs_reaching_an_element_event": part_nontrivial}));
        if inputs_done < n {
            ctx.set("exhaustive", json!(false));
        }
        // samples
        for k in 0..2u64 {
            let idx = crate::ctx::mix(ctx.seed, k + crate::ctx::fnv(part)) % n.max(1);
            let b = part_input(part, tier, idx);
            ctx.push("samples", json!({"part": part, "index": idx, "input": String::from_utf8_lossy(&b[..b.len().min(80)])}));
        }
    }
    ctx.set("evaluations", json!(total_calls));
    ctx.set("inputs", json!(total_inputs));
    ctx.set("distinct_nontrivial", json!(total_nontrivial));
    ctx.set("reader_configurations", json!(reader_configs(tier).len()));
    ctx.set(
        "rule",
        json!("every input of every part is given to into_struct under every reader configuration (trim_text x expand_empty_elements x check_end_names; thorough also allow_unmatched_ends x check_comments), every Ok is rendered under 8 option tuples, and the input is used to extend three base states; evaluations = library calls made; all calls run inside catch_unwind in child processes, a child that dies or exceeds its wall budget is narrowed to one input. distinct_nontrivial = inputs (distinct by construction) whose event stream reaches at least one element"),
    );
}

pub fn replay(ctx: &Ctx, case: &Value) {
    let part = case["part"].as_str().unwrap_or("bytes");
    // replay in a child so that an abort does not take the driver down
    if part == "depth" || part == "depth-unoptimised" || case.get("index").is_some() && case.get("bytes_hex").is_none() {
        let idx = case["index"].as_u64().unwrap_or(0);
        let o = run_child(ctx.tier, part, idx, idx + 1, 1, Duration::from_secs(60));
        report_replay(ctx, case, &o);
        return;
    }
    let bytes = unhex(case["bytes_hex"].as_str().unwrap_or(""));
    if part == "reader" || part == "reader-docs" {
        let choices: Vec<usize> = case["choices"].as_array().map(|a| a.iter().filter_map(|x| x.as_u64().map(|v| v as usize)).collect()).unwrap_or_default();
        let r = subject::guarded(|| {
            subject::parse_reader(ChoiceReader::new(&bytes, Chooser::new(choices.clone()), true), &RCfg::default()).map(|e| subject::render_all(&e)).is_ok()
        });
        if let Err(p) = r {
            ctx.report(Violation { class: "panic/reader".into(), summary: p, replay: case.clone(), rank: 0 });
        }
        return;
    }
    // in-process replay under catch_unwind is enough for panics; aborts are replayed through the index path above
    let ex = Exerciser::new(Tier::Thorough);
    let (p1, _) = ex.exercise(&bytes);
    let (p2, _) = ex.exercise(&bytes);
    if p1.len() != p2.len() {
        ctx.machinery_error("replay is not deterministic".into());
    }
    for p in p1 {
        let loc = subject::LAST_PANIC_LOCATION.with(|l| l.borrow().clone()).unwrap_or_default();
        ctx.report(Violation { class: format!("panic/{}", loc), summary: p, replay: case.clone(), rank: 0 });
    }
}

fn report_replay(ctx: &Ctx, case: &Value, o: &ChildOutcome) {
    match &o.done {
        Some(d) => {
            for f in d["found"].as_array().cloned().unwrap_or_default() {
                ctx.report(Violation {
                    class: f["class"].as_str().unwrap_or("panic").to_string(),
                    summary: f["summary"].as_str().unwrap_or("").to_string(),
                    replay: case.clone(),
                    rank: 0,
                });
            }
        }
        None => ctx.report(Violation {
            class: if o.timed_out { "hang".into() } else { "abort".into() },
            summary: format!("child process ended with `{}`", o.status),
            replay: case.clone(),
            rank: 0,
        }),
    }
}
