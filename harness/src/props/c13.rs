//! C13 — serde-xml-rs preset: the rendered code compiles and serde_xml_rs deserialises its sources.

use super::c02::{data_oriented, local_names_distinct, namespace_free_adjacent, replay_spec, run_spec, FarmSpec};
use super::names::pool;
use crate::ctx::Ctx;
use crate::dom::Node;
use crate::progfarm::Flavor;
use crate::subject::Preset;
use serde_json::{json, Value};

pub fn c13_spec() -> FarmSpec {
    fn admit(n: &Node) -> bool {
        namespace_free_adjacent(n) && local_names_distinct(n) && data_oriented(n, false)
    }
    FarmSpec { prop: "C13", flavor: Flavor::SerdeXmlRs, preset: Preset::SerdeXmlRs, deny_variant: false, admit, max_programs: 12_000 }
}

pub fn run(ctx: &Ctx) {
    let spec = c13_spec();
    run_spec(ctx, &spec, &pool(&["prefixed", "xmlns"]));
    ctx.set(
        "rule",
        json!("as C02, restricted to the statement's side condition (no prefixed names, no xmlns attributes, attribute names of an element distinct from its child names, repeated children adjacent, no text next to children), rendered with the serde-xml-rs preset, one variant per program, executed with serde_xml_rs::from_str::<FirstStruct>. distinct_nontrivial = distinct programs"),
    );
    ctx.assume("rustc 1.95 / serde 1.0.229 / serde-xml-rs 0.6.0 (xml-rs 0.8.29) are the oracles");
}

pub fn replay(ctx: &Ctx, case: &Value) {
    replay_spec(ctx, &c13_spec(), case)
}
