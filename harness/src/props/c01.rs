//! C01 — generated structs admit every document they were inferred from (soundness).

use super::hist::*;
use crate::ctx::{fnv, Ctx, Violation};
use crate::docspace::Space;
use crate::oracle::{check_sound, Binding};
use crate::par::par_for;
use crate::subject::Preset;
use serde_json::{json, Value};
use std::collections::HashSet;
use xml_schema_generator::Element;

pub fn judge(docs: &[&DocEntry], el: &Element<String>, rank: u64) -> Vec<Violation> {
    let mut out = Vec::new();
    let mk = |class: String, msg: String| Violation {
        class,
        summary: format!(
            "{} | docs: {}",
            msg,
            docs.iter().map(|d| d.xml.as_str()).collect::<Vec<_>>().join(" ++ ")
        ),
        replay: docs_json(docs),
        rank,
    };
    for (preset, b, pname) in [
        (Preset::QuickXml, Binding::quick_xml(), "quick-xml"),
        (Preset::SerdeXmlRs, Binding::serde_xml_rs(), "serde-xml-rs"),
    ] {
        for sorted in [false, true] {
            match render_read(el, preset, sorted) {
                Err(e) => out.push(mk("unreadable".into(), e)),
                Ok(r) => {
                    // a field type must identify exactly one definition
                    if let Some(dup) = r.structs.iter().enumerate().find(|(i, s)| r.structs.iter().skip(i + 1).any(|t| t.name == s.name)) {
                        out.push(mk("struct-name-ambiguous".into(), format!("[{} preset] struct `{}` is defined more than once: the struct of a position is not determined", pname, dup.1.name)));
                        continue;
                    }
                    for (di, d) in docs.iter().enumerate() {
                        if let Some(root) = d.root() {
                            if let Err((class, msg)) =
                                check_sound(root, &r.structs, &r.tree, &b, &format!("doc#{}:/{}", di, root.name))
                            {
                                out.push(mk(class.to_string(), format!("[{} preset] {}", pname, msg)));
                                break;
                            }
                        }
                    }
                }
            }
        }
    }
    out
}

pub fn run(ctx: &Ctx) {
    ctx.set("exhaustive", json!(true));
    let mut all_distinct: HashSet<u64> = HashSet::new();
    let mut total_evals = 0u64;
    let mut first = plain_cfg(ctx.tier.pick(5, 6));
    first.kinds = vec![
        crate::docspace::Kind::Text,
        crate::docspace::Kind::CData,
        crate::docspace::Kind::Ws,
        crate::docspace::Kind::Comment,
    ];
    for cfg in [first, wide_cfg(ctx.tier.pick(4, 5)), deep_cfg(ctx.tier.pick(6, 8)), entity_cfg(ctx.tier.pick(4, 5)), chardata_cfg(ctx.tier.pick(5, 6))] {
    let describe = cfg.describe();
    let sp = Space::new(cfg);
    let res = par_for(
        sp.len(),
        ctx.threads,
        512,
        Some(ctx.deadline),
        |_| HashSet::<u64>::new(),
        |acc, i| {
            let d = DocEntry::from_doc(sp.doc(i));
            if i % 97 == 0 {
                if let Err(e) = self_check(&d) {
                    ctx.machinery_error(e);
                }
            }
            match run_history(&[&d]) {
                Ok(el) => {
                    ctx.report_all(judge(&[&d], &el, i));
                    acc.insert(fnv(&expected_schema(&[&d]).sorted().key()));
                }
                Err(msg) => ctx.report(Violation {
                    class: "parse-failed".into(),
                    summary: format!("well-formed document rejected: {} | {}", msg, d.xml),
                    replay: docs_json(&[&d]),
                    rank: i,
                }),
            }
            if ctx.sample_hash_qualifies(i) {
                ctx.sample(i, || json!({"document": d.xml}));
            }
        },
    );
    for a in res.accs {
        all_distinct.extend(a);
    }
    total_evals += res.processed;
    ctx.push("single_document_spaces", json!({"space": describe, "size": sp.len(), "visited": res.processed}));
    if !res.complete {
        ctx.set("exhaustive", json!(false));
        ctx.push("caps", json!(format!("wall budget: {} of {} single documents", res.processed, sp.len())));
    }
    }
    // deep nesting (depth 1..=120), singly and extended with itself
    let chains = deep_chain_docs(120);
    let found = std::sync::atomic::AtomicBool::new(false);
    let res = par_for(
        chains.len() as u64,
        ctx.threads,
        4,
        Some(ctx.deadline),
        |_| 0u64,
        |acc, i| {
            if found.load(std::sync::atomic::Ordering::Relaxed) {
                return; // ascending depth: deeper chains add nothing once a violation is known
            }
            let d = &chains[i as usize];
            for h in [vec![d], vec![d, d]] {
                if let Ok(el) = run_history(&h) {
                    let vs = judge(&h, &el, (1 << 52) | i);
                    if !vs.is_empty() {
                        found.store(true, std::sync::atomic::Ordering::Relaxed);
                    }
                    ctx.report_all(vs);
                    *acc += 1;
                }
            }
        },
    );
    total_evals += res.accs.iter().sum::<u64>();
    ctx.set("deep_chains", json!({"max_depth": 120, "documents": chains.len()}));
    ctx.set("evaluations", json!(total_evals));
    ctx.set("distinct_nontrivial", json!(all_distinct.len()));
    // adversarial names before the (long) searches: a wall budget that runs out cuts the deepest level of a
    // search, not this part
    names_part(ctx, &[2], true);
    let searches: Vec<(usize, usize)> = ctx.tier.pick(vec![(2, 4), (3, 1)], vec![(2, 8), (3, 2)]);
    for (aw, depth) in searches {
        let alphabet = materialise(history_cfg(aw));
        let mut events: Vec<Event> = alphabet.iter().cloned().map(Event::doc).collect();
        events.extend(elementless().into_iter().map(Event::doc));
        let judge_t = |t: &Transition| match t.succ {
            Some(s) => ctx.report_all(judge(&t.all_docs(), s, t.rank)),
            None => ctx.report(Violation {
                class: "extend-failed".into(),
                summary: format!("extend_struct rejected well-formed `{}`", t.event.label),
                replay: t.replay_json(),
                rank: t.rank,
            }),
        };
        let judge_i = |d: &DocEntry, el: &Element<String>, i: u64| ctx.report_all(judge(&[d], el, i));
        let search = ExtendSearch {
            ctx,
            init_docs: &alphabet,
            events: &events,
            depth,
            state_cap: ctx.tier.pick(400_000, 1_500_000),
            audit_cap: ctx.tier.pick(2_000, 20_000),
            judge_init: &judge_i,
            judge: &judge_t,
        };
        let stats = search.run();
        record_bfs(ctx, &format!("extend over documents of weight <= {}", aw), &stats, events.len(), depth);
    }
    // the 3-subsets (thorough tier only) last: this is the part the wall budget is expected to cut
    if ctx.tier == crate::ctx::Tier::Thorough {
        names_part(ctx, &[3], false);
    }
    ctx.set(
        "rule",
        json!("(a) every document of the single-document space (text, CDATA, whitespace and comments as items); (b) breadth-first search over extend_struct, every transition's rendering is checked against *every* document of its history; (c) adversarial names: every tree shape up to the bound with names from every small subset of the adversarial pool that satisfies the side condition. Oracle: each attribute/child of each occurrence has a field bound to its XML name in the struct of its position, non-Option fields are present, non-Vec children occur at most once, character data only where there is a text field or a String-typed field. distinct_nontrivial = distinct reference schemas among the single documents"),
    );
}

pub fn replay(ctx: &Ctx, case: &Value) {
    let docs = match docs_from_json(case) {
        Ok(d) => d,
        Err(e) => return ctx.machinery_error(e),
    };
    let refs: Vec<&DocEntry> = docs.iter().collect();
    let mut seen = Vec::new();
    for _ in 0..2 {
        match run_history(&refs) {
            Ok(el) => {
                let vs = judge(&refs, &el, 0);
                seen.push(vs.iter().map(|v| v.class.clone()).collect::<Vec<_>>());
                ctx.report_all(vs);
            }
            Err(msg) => {
                seen.push(vec![msg.clone()]);
                ctx.report(Violation {
                    class: "parse-failed".into(),
                    summary: msg,
                    replay: case.clone(),
                    rank: 0,
                });
            }
        }
    }
    if seen[0] != seen[1] {
        ctx.machinery_error("replay is not deterministic".into());
    }
}

/// (c) adversarial names over small trees, as one document and split into two
fn names_part(ctx: &Ctx, ks: &[usize], with_pools: bool) {
    use super::names::*;
    let pool = pool(&[]);
    let params = ctx.tier.pick(
        TreeParams { min_nodes: 1, max_nodes: 3, max_decorated: 1, root_from_subset: false, shard: (0, 1) },
        TreeParams { min_nodes: 1, max_nodes: 3, max_decorated: 1, root_from_subset: false, shard: (0, 1) },
    );
    // names that are separator-joined combinations of other names (a.b / c next to a / b.c)
    // ... and names whose struct names fold onto each other next to names that equal a numbered form
    // (a / A / a1: a disambiguating number can collide with a natural name), 3-subsets
    let mut sets: Vec<(Vec<PoolName>, usize)> = super::c04::separator_sets().into_iter().map(|s| (s, 4)).collect();
    sets.push((super::c04::suffix_pool(), 3));
    sets.push((super::c04::numbering_pool(), 3));
    if !with_pools {
        sets.clear();
    }
    for (set, k_set) in sets {
        let sp = TreeParams { min_nodes: if k_set == 4 { 3 } else { 2 }, max_nodes: 4, max_decorated: 0, root_from_subset: false, shard: (0, 1) };
        let sub4 = subsets(set.len(), k_set);
        let res = par_for(
            sub4.len() as u64,
            ctx.threads,
            1,
            Some(ctx.deadline),
            |_| 0u64,
            |acc, si| {
                let subset: Vec<PoolName> = sub4[si as usize].iter().map(|&i| set[i]).collect();
                for_each_tree(&subset, &sp, &mut |root| {
                    if !prefix_clash_free(root) {
                        return;
                    }
                    let d = DocEntry::from_root(root.clone());
                    if let Ok(el) = run_history(&[&d]) {
                        ctx.report_all(judge(&[&d], &el, (1 << 51) | si));
                        *acc += 1;
                    }
                });
            },
        );
        ctx.add("evaluations", res.accs.iter().sum::<u64>());
    }
    for &k in ks {
    let subs = subsets(pool.len(), k);
    let res = par_for(
        subs.len() as u64,
        ctx.threads,
        1,
        Some(ctx.deadline),
        |_| (0u64, 0u64, HashSet::<u64>::new()),
        |acc, si| {
            let subset: Vec<PoolName> = subs[si as usize].iter().map(|&i| pool[i]).collect();
            let mut local = 0u64;
            for_each_tree(&subset, &params, &mut |root| {
                if !prefix_clash_free(root) {
                    acc.1 += 1;
                    return;
                }
                local += 1;
                let rank = (si << 24) | local.min(0xff_ffff);
                let d = DocEntry::from_root(root.clone());
                if local % 211 == 0 {
                    if let Err(e) = self_check(&d) {
                        ctx.machinery_error(e);
                    }
                }
                let mut histories: Vec<Vec<DocEntry>> = vec![vec![d]];
                let nkids = root.children().count();
                for at in 1..nkids {
                    if let Some((a, b)) = split(root, at) {
                        histories.push(vec![DocEntry::from_root(a), DocEntry::from_root(b)]);
                    }
                }
                for h in histories {
                    let refs: Vec<&DocEntry> = h.iter().collect();
                    acc.0 += 1;
                    match run_history(&refs) {
                        Ok(el) => {
                            let vs = judge(&refs, &el, rank);
                            ctx.report_all(vs);
                            acc.2.insert(fnv(&crate::subject::render(&el, Preset::QuickXml, false)));
                        }
                        Err(msg) => ctx.report(Violation {
                            class: "parse-failed".into(),
                            summary: format!("well-formed document rejected: {}", msg),
                            replay: docs_json(&refs),
                            rank,
                        }),
                    }
                    if ctx.sample_hash_qualifies(rank ^ 0x5555) {
                        ctx.sample(rank ^ 0x5555, || json!({"named_history": refs.iter().map(|d| d.xml.clone()).collect::<Vec<_>>()}));
                    }
                }
            });
        },
    );
    let evals: u64 = res.accs.iter().map(|a| a.0).sum();
    let skipped: u64 = res.accs.iter().map(|a| a.1).sum();
    let mut distinct: HashSet<u64> = HashSet::new();
    for a in res.accs {
        distinct.extend(a.2);
    }
    ctx.add("evaluations", evals);
    ctx.push(
        "adversarial_names",
        json!({"pool": pool.len(), "subset_size": k, "subsets": subs.len(), "subsets_done": res.processed,
               "tree_nodes_max": params.max_nodes, "decorated_nodes_max": params.max_decorated,
               "histories_evaluated": evals, "trees_outside_side_condition": skipped,
               "distinct_renderings": distinct.len()}),
    );
    if !res.complete {
        ctx.set("exhaustive", json!(false));
        ctx.push("caps", json!(format!("adversarial names: wall budget, {} of {} {}-subsets", res.processed, subs.len(), k)));
    }
    }
}
