//! Reader of rendered source. A strict line grammar for exactly what `to_serde_struct` emits;
//! anything else is an *unreadable output* (reported, never guessed around). `syn_view` parses the
//! same text with the real Rust grammar; `cross_check` requires both views to agree.

use std::collections::HashMap;

#[derive(Clone, Debug, PartialEq, Eq)]
pub struct RField {
    pub rename: Option<String>,
    pub ident: String,
    pub opt: bool,
    pub vec: bool,
    pub base: String,
}

impl RField {
    /// serde name the field is bound to
    pub fn bound(&self) -> &str {
        self.rename.as_deref().unwrap_or(&self.ident)
    }

    pub fn ty(&self) -> String {
        match (self.opt, self.vec) {
            (false, false) => self.base.clone(),
            (true, false) => format!("Option<{}>", self.base),
            (false, true) => format!("Vec<{}>", self.base),
            (true, true) => format!("Option<Vec<{}>>", self.base),
        }
    }
}

#[derive(Clone, Debug, PartialEq, Eq)]
pub struct RStruct {
    pub derive: Option<String>,
    pub name: String,
    pub fields: Vec<RField>,
}

fn parse_type(t: &str) -> Result<(bool, bool, String), String> {
    let mut opt = false;
    let mut vec = false;
    let mut rest = t;
    if let Some(inner) = rest.strip_prefix("Option<").and_then(|r| r.strip_suffix('>')) {
        opt = true;
        rest = inner;
    }
    if let Some(inner) = rest.strip_prefix("Vec<").and_then(|r| r.strip_suffix('>')) {
        vec = true;
        rest = inner;
    }
    if rest.contains('<') || rest.contains('>') || rest.contains(' ') || rest.contains(',') {
        return Err(format!("unsupported field type `{}`", t));
    }
    Ok((opt, vec, rest.to_string()))
}

/// parse the output of `to_serde_struct`
pub fn parse_rendered(src: &str) -> Result<Vec<RStruct>, String> {
    let mut out: Vec<RStruct> = Vec::new();
    let mut cur: Option<RStruct> = None;
    let mut derive: Option<String> = None;
    let mut rename: Option<String> = None;
    let mut expect_blank = false;
    if !src.is_empty() && !src.ends_with('\n') {
        return Err("output does not end with a newline".into());
    }
    for (ln, line) in src.lines().enumerate() {
        let err = |m: &str| Err(format!("line {}: {}: `{}`", ln + 1, m, line));
        if expect_blank {
            if !line.is_empty() {
                return err("blank line expected after `}`");
            }
            expect_blank = false;
            continue;
        }
        match cur.as_mut() {
            None => {
                if let Some(d) = line
                    .strip_prefix("#[derive(")
                    .and_then(|r| r.strip_suffix(")]"))
                {
                    if derive.is_some() {
                        return err("two derive lines");
                    }
                    derive = Some(d.to_string());
                } else if let Some(n) = line
                    .strip_prefix("pub struct ")
                    .and_then(|r| r.strip_suffix(" {"))
                {
                    cur = Some(RStruct {
                        derive: derive.take(),
                        name: n.to_string(),
                        fields: Vec::new(),
                    });
                } else {
                    return err("struct header expected");
                }
            }
            Some(st) => {
                if line == "}" {
                    if rename.is_some() {
                        return err("rename without field");
                    }
                    out.push(cur.take().unwrap());
                    expect_blank = true;
                } else if let Some(r) = line
                    .strip_prefix("    #[serde(rename = \"")
                    .and_then(|r| r.strip_suffix("\")]"))
                {
                    if rename.is_some() {
                        return err("two rename lines");
                    }
                    rename = Some(r.to_string());
                } else if let Some(f) = line
                    .strip_prefix("    pub ")
                    .and_then(|r| r.strip_suffix(','))
                {
                    let (ident, ty) = match f.split_once(": ") {
                        Some(x) => x,
                        None => return err("field expected"),
                    };
                    let (opt, vec, base) = match parse_type(ty) {
                        Ok(x) => x,
                        Err(e) => return err(&e),
                    };
                    st.fields.push(RField {
                        rename: rename.take(),
                        ident: ident.to_string(),
                        opt,
                        vec,
                        base,
                    });
                } else {
                    return err("field, rename or `}` expected");
                }
            }
        }
    }
    if cur.is_some() || derive.is_some() || expect_blank {
        return Err("output ends inside a struct (or without the blank line)".into());
    }
    Ok(out)
}

/// read a rendering: the fast line grammar first, the real Rust grammar (syn) when the text is
/// laid out differently. Only a text that neither can read is unreadable
pub fn read_structs(src: &str) -> Result<Vec<RStruct>, String> {
    match parse_rendered(src) {
        Ok(s) => Ok(s),
        Err(e) => syn_view(src).map_err(|e2| format!("{}; {}", e, e2)),
    }
}

/// the struct tree of a rendering: for every struct its index and, per field of struct type, the subtree
#[derive(Clone, Debug)]
pub struct RTree {
    pub idx: usize,
    /// (field index in the struct, subtree) for every field whose base type is not `String`
    pub kids: Vec<(usize, RTree)>,
}

/// Recover which struct describes which position. When all struct names are distinct, field types
/// are resolved by name; otherwise by the pre-order position (the renderer emits a struct, then the
/// subtrees of its struct-typed fields in field order). Every struct must be reached exactly once.
pub fn resolve(structs: &[RStruct]) -> Result<RTree, String> {
    if structs.is_empty() {
        return Err("no struct in output".into());
    }
    let mut by_name: HashMap<&str, Vec<usize>> = HashMap::new();
    for (i, s) in structs.iter().enumerate() {
        by_name.entry(s.name.as_str()).or_default().push(i);
    }
    let unique = by_name.values().all(|v| v.len() == 1);
    let mut used = vec![false; structs.len()];
    let tree = if unique {
        fn by_name_rec(
            structs: &[RStruct],
            by_name: &HashMap<&str, Vec<usize>>,
            idx: usize,
            used: &mut Vec<bool>,
        ) -> Result<RTree, String> {
            if used[idx] {
                return Err(format!(
                    "struct {} is used by more than one field (or recursively)",
                    structs[idx].name
                ));
            }
            used[idx] = true;
            let mut kids = Vec::new();
            for (fi, f) in structs[idx].fields.iter().enumerate() {
                if f.base == "String" {
                    continue;
                }
                let target = by_name
                    .get(f.base.as_str())
                    .ok_or_else(|| format!("field {}.{} has undefined type {}", structs[idx].name, f.ident, f.base))?[0];
                kids.push((fi, by_name_rec(structs, by_name, target, used)?));
            }
            Ok(RTree { idx, kids })
        }
        by_name_rec(structs, &by_name, 0, &mut used)?
    } else {
        fn positional(
            structs: &[RStruct],
            next: &mut usize,
            used: &mut Vec<bool>,
        ) -> Result<RTree, String> {
            let idx = *next;
            if idx >= structs.len() {
                return Err("fewer structs than struct-typed fields".into());
            }
            *next += 1;
            used[idx] = true;
            let mut kids = Vec::new();
            for (fi, f) in structs[idx].fields.iter().enumerate() {
                if f.base == "String" {
                    continue;
                }
                let at = *next;
                let sub = positional(structs, next, used)?;
                if structs[at].name != f.base {
                    return Err(format!(
                        "field {}.{} has type {} but the struct at its pre-order position is {}",
                        structs[idx].name, f.ident, f.base, structs[at].name
                    ));
                }
                kids.push((fi, sub));
            }
            Ok(RTree { idx, kids })
        }
        let mut next = 0;
        positional(structs, &mut next, &mut used)?
    };
    if let Some(i) = used.iter().position(|u| !u) {
        return Err(format!("struct {} is not used by any field", structs[i].name));
    }
    Ok(tree)
}

/// view of the same text through `syn` (the real Rust grammar)
pub fn syn_view(src: &str) -> Result<Vec<RStruct>, String> {
    let file = syn::parse_file(src).map_err(|e| format!("syn: {}", e))?;
    let mut out = Vec::new();
    for item in file.items {
        let st = match item {
            syn::Item::Struct(s) => s,
            other => {
                return Err(format!(
                    "syn: item that is not a struct: {}",
                    quote_item(&other)
                ))
            }
        };
        let mut derive = None;
        for a in &st.attrs {
            if a.path().is_ident("derive") {
                if let syn::Meta::List(l) = &a.meta {
                    derive = Some(l.tokens.to_string());
                }
            } else {
                return Err("syn: unexpected struct attribute".into());
            }
        }
        if !st.generics.params.is_empty() {
            return Err("syn: generic struct".into());
        }
        let fields = match st.fields {
            syn::Fields::Named(n) => n.named,
            _ => return Err("syn: struct without named fields".into()),
        };
        let mut rfields = Vec::new();
        for f in fields {
            let mut rename = None;
            for a in &f.attrs {
                if !a.path().is_ident("serde") {
                    return Err("syn: unexpected field attribute".into());
                }
                let mut bad = None;
                a.parse_nested_meta(|m| {
                    if m.path.is_ident("rename") {
                        let v: syn::LitStr = m.value()?.parse()?;
                        rename = Some(v.value());
                    } else {
                        bad = Some("unexpected serde argument");
                    }
                    Ok(())
                })
                .map_err(|e| format!("syn: serde attribute: {}", e))?;
                if let Some(b) = bad {
                    return Err(format!("syn: {}", b));
                }
            }
            let ident = f.ident.as_ref().map(|i| i.to_string()).unwrap_or_default();
            let (opt, vec, base) = syn_type(&f.ty)?;
            rfields.push(RField {
                rename,
                ident,
                opt,
                vec,
                base,
            });
        }
        out.push(RStruct {
            derive,
            name: st.ident.to_string(),
            fields: rfields,
        });
    }
    Ok(out)
}

fn quote_item(i: &syn::Item) -> String {
    match i {
        syn::Item::Fn(_) => "fn".into(),
        syn::Item::Enum(_) => "enum".into(),
        syn::Item::Use(_) => "use".into(),
        syn::Item::Mod(_) => "mod".into(),
        _ => "other".into(),
    }
}

fn syn_type(t: &syn::Type) -> Result<(bool, bool, String), String> {
    fn single_arg<'a>(t: &'a syn::Type, name: &str) -> Option<&'a syn::Type> {
        if let syn::Type::Path(p) = t {
            if p.qself.is_none() && p.path.segments.len() == 1 {
                let seg = &p.path.segments[0];
                if seg.ident == name {
                    if let syn::PathArguments::AngleBracketed(a) = &seg.arguments {
                        if a.args.len() == 1 {
                            if let syn::GenericArgument::Type(inner) = &a.args[0] {
                                return Some(inner);
                            }
                        }
                    }
                }
            }
        }
        None
    }
    let mut cur = t;
    let mut opt = false;
    let mut vec = false;
    if let Some(inner) = single_arg(cur, "Option") {
        opt = true;
        cur = inner;
    }
    if let Some(inner) = single_arg(cur, "Vec") {
        vec = true;
        cur = inner;
    }
    if let syn::Type::Path(p) = cur {
        if p.qself.is_none() && p.path.segments.len() == 1 {
            let seg = &p.path.segments[0];
            if matches!(seg.arguments, syn::PathArguments::None) {
                return Ok((opt, vec, seg.ident.to_string()));
            }
        }
    }
    Err("syn: unsupported field type".into())
}

/// both views of one text must agree (names, identifiers, types, rename values; the derive text is
/// compared modulo token spacing)
pub fn cross_check(line_view: &[RStruct], syn_view: &[RStruct]) -> Result<(), String> {
    if line_view.len() != syn_view.len() {
        return Err(format!(
            "line grammar sees {} structs, syn sees {}",
            line_view.len(),
            syn_view.len()
        ));
    }
    for (a, b) in line_view.iter().zip(syn_view.iter()) {
        if a.name != b.name {
            return Err(format!("struct name `{}` vs syn `{}`", a.name, b.name));
        }
        let squash = |s: &Option<String>| s.as_ref().map(|d| d.replace(' ', ""));
        if squash(&a.derive) != squash(&b.derive) {
            return Err(format!("derive of {} differs between views", a.name));
        }
        if a.fields != b.fields {
            return Err(format!(
                "fields of {} differ between views: {:?} vs {:?}",
                a.name, a.fields, b.fields
            ));
        }
    }
    Ok(())
}

#[cfg(test)]
mod tests {
    use super::*;

    const SRC: &str = "#[derive(Serialize, Deserialize)]\npub struct A {\n    #[serde(rename = \"@b\")]\n    pub b: String,\n    #[serde(rename = \"$text\")]\n    pub text: Option<String>,\n    pub c: Option<Vec<AC>>,\n}\n\n#[derive(Serialize, Deserialize)]\npub struct AC {\n}\n\n";

    #[test]
    fn reads_and_resolves() {
        let s = parse_rendered(SRC).unwrap();
        assert_eq!(s.len(), 2);
        assert_eq!(s[0].fields[2].ty(), "Option<Vec<AC>>");
        let t = resolve(&s).unwrap();
        assert_eq!(t.kids.len(), 1);
        cross_check(&s, &syn_view(SRC).unwrap()).unwrap();
    }

    #[test]
    fn rejects_garbage() {
        assert!(parse_rendered("pub struct A {\n    pub b: Box<String>,\n}\n\n").is_err());
        assert!(parse_rendered("pub struct A {\n}\n").is_err());
        assert!(parse_rendered("fn main() {}\n").is_err());
    }
}
