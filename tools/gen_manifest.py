#!/usr/bin/env python3
"""(re)generate /verif/MANIFEST.json from the table below"""
import json, os, subprocess
base = os.path.dirname(os.path.dirname(os.path.abspath(__file__)))
props = [json.loads(l)["id"] for l in open(f"{base}/properties.jsonl")]

BFS = "explicit-state model checking of the implementation: breadth-first search over the real extend_struct transition function with exact-key deduplication and merge audit, plus bounded-exhaustive enumeration of single documents, against a DOM-based reference model"
SWEEP = "bounded-exhaustive enumeration (every case of an explicitly bounded input space, no sampling)"

CHECKS = {
 "C01": dict(level="model_checking", engine="sweep+bfs", technique=BFS,
   text="Every document of several weight-bounded spaces (plain, three names, depth 6, entity text), nesting chains to depth 120, every extend-history of a breadth-first search over the real extend_struct (exact-key states, every transition judged against every document of its history) and every small tree over subsets of an adversarial name pool is rendered and each source document is walked against the rendering.",
   note="bounded alphabets/weights/depths (see evidence); harness DOM reader and line-grammar reader of the rendered source are trusted (the latter is cross-checked against syn in C04)", ref="DESIGN.md §4 C01"),
 "C03": dict(level="model_checking", engine="sweep+bfs", technique=BFS,
   text="Equality (not inclusion) of the rendered schema and of the internal tree with an independent DOM-based definition of the inference, for every document of a bounded space and every transition of a breadth-first search over extend_struct.",
   note="bounded alphabets/weights/depths; reference model trusted (its join laws are checked exhaustively in C06)", ref="DESIGN.md §4 C03"),
 "C05": dict(level="model_checking", engine="choice-explorer", technique="stateless model checking of the implementation under a controlled environment: deviation-bounded exhaustive exploration of HashMap iteration orders (hook), confirmed by free-running repetition on the hooks-off build",
   text="Every case is re-executed under every assignment of hash-iteration orders with a bounded number of deviations from the default; all observations must equal the default run. Every case is also repeated on the shipped library in fresh threads and processes, with copies of intermediate values kept alive and rendered in adverse order and with its documents parsed on different threads; some cases run in a process of their own.",
   note="iteration order modelled as arbitrary permutation per (map instance, key set); only HashMap (not HashSet) is hooked; a verdict requires a difference on the real HashMap", ref="DESIGN.md §4 C05"),
 "C06": dict(level="model_checking", engine="bfs", technique="explicit-state model checking of the implementation: breadth-first search over extend_struct (documents, element-less and malformed inputs as events) with per-transition invariants and a differential table keyed by the multiset of supplied documents",
   text="Batch equivalence, monotonicity, idempotence, neutrality of element-less inputs, order independence and Err-on-malformed (also when the defect sits behind a complete root element) are evaluated on every transition of the search, and on second documents that are cut off inside open elements, wrapped in prologs / epilogs or taken from an attribute-heavy space.",
   note="bounded alphabet and depth; reference join laws checked exhaustively on the alphabet", ref="DESIGN.md §4 C06"),
 "C09": dict(level="model_checking", engine="sweep+bfs", technique=BFS,
   text="For every document of an order-sensitive space and every transition of a search over extend_struct both sort options are rendered and compared with the first-appearance / XML-name orders of the DOM reference; struct order must be the pre-order walk; the two renderings must differ in order only; the same options built in other ways (sort set before the derive() builder, all fields written out) must render the same bytes.",
   note="bounded alphabets (3 element names, 3 attribute names as sequences)", ref="DESIGN.md §4 C09"),
 "C15": dict(level="exploration", engine="sweep", technique=SWEEP,
   text="Every ordered pair of duplicate-free tagged lists over a small alphabet is merged by the real function and judged clause by clause against the statement.",
   note="alphabet of 5 items (quick) / 6 items (thorough); item types u8 and String", ref="DESIGN.md §4 C15"),
}
EXTRA = json.load(open(f"{base}/tools/manifest_extra.json")) if os.path.exists(f"{base}/tools/manifest_extra.json") else {}
CHECKS.update(EXTRA)

def hook_commits():
    out = subprocess.run(["git", "-C", "/repo", "log", "--format=%h %s"], capture_output=True, text=True).stdout
    return [l.split()[0] for l in out.splitlines() if "xsg_verif" in l or "verification seam" in l.lower()]

man = {
 "version": 1,
 "setup_cmd": "cd /verif && ./setup.sh",
 "hooks": {
   "guard": "cargo feature xsg_verif (crate xml_schema_generator)",
   "enable": "the harness crate /verif/harness depends on /repo by path and enables the feature through its own feature `hooks`; ./check rebuilds harness and /repo (hooks on) before every run",
   "baseline_off_cmd": "cd /repo && cargo test --workspace --no-fail-fast --offline",
   "source_commits": hook_commits(),
   "add_only": True,
 },
 "engines": [
   {"name": "bfs", "path": "harness/src/bfs.rs", "serves_properties": ["C01", "C03", "C06", "C09", "C16"], "kind_free_text": "level-synchronous explicit-state search over real transition functions, exact string keys, merge audit"},
   {"name": "choice-explorer", "path": "harness/src/choice.rs", "serves_properties": ["C05", "C07", "C11"], "kind_free_text": "deviation-bounded exhaustive exploration of environment answers (hash iteration order, BufRead behaviour)"},
   {"name": "program-farm", "path": "harness/src/progfarm.rs + farm-template/", "serves_properties": ["C02", "C13"], "kind_free_text": "writes every distinct generated program as a Rust module, builds 16 shard binaries with cargo/rustc offline, runs them against their source documents"},
   {"name": "depthprobe", "path": "depthprobe/", "serves_properties": ["C07"], "kind_free_text": "tiny binary that runs the nesting templates against the library compiled at opt-level 0 (largest stack frames) on a 2 MiB stack; child of the C07 driver"},
   {"name": "stateright cross-check", "path": "harness/src/props/c16.rs", "serves_properties": ["C16"], "kind_free_text": "C16's state machine given to stateright 0.31's BFS checker; unique-state counts must equal the own engine's"},
   {"name": "cli-driver", "path": "harness/src/props/c12.rs", "serves_properties": ["C12"], "kind_free_text": "runs the real command-line binary over a finite product of inputs, flags and output targets"},
   {"name": "sweep", "path": "harness/src/par.rs + harness/src/docspace.rs", "serves_properties": ["C01", "C02", "C03", "C04", "C07", "C08", "C09", "C10", "C11", "C13", "C14", "C15"], "kind_free_text": "index-addressable bounded-exhaustive input spaces sharded over 16 workers"},
 ],
 "checks": [],
 "not_applicable": [],
 "notes": "All checks: ./check <id> --tier quick|thorough; exit 0 held / 1 VIOLATION / 2 machinery failure. Known findings: known_findings.json. See DESIGN.md.",
}
for p in props:
    if p in CHECKS:
        c = CHECKS[p]
        man["checks"].append({
          "property_id": p,
          "quick_cmd": f"./check {p} --tier quick",
          "thorough_cmd": f"./check {p} --tier thorough",
          "evidence_file": f"/verif/evidence/{p}.json",
          "replay_cmd_template": f"./check {p} --replay {{path}}",
          "engine": c["engine"],
          "level_claimed": {"category": c["level"], "text": c["text"], "design_ref": c["ref"]},
          "level_note": c["note"],
          "technique": c["technique"],
        })
    else:
        man["not_applicable"].append({"property_id": p, "reason": "check not built yet (work in progress; planned technique in DESIGN.md section 4)"})
json.dump(man, open(f"{base}/MANIFEST.json", "w"), indent=1, ensure_ascii=False)
print("claimed:", [c["property_id"] for c in man["checks"]])
