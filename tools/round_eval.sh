#!/bin/bash
# usage: tools/round_eval.sh <letter> <iso-root> <results.jsonl> <Cxx> [<Cxx> ...]
# For every delivered change /tmp/wt/<Cxx>/out/m<k>.{diff,md} + demo_m<k>.rs of a sub-agent round:
#   stage it as /tmp/seeds/<Cxx>-<letter><k>/ (patch.diff, demo_<Cxx>_<letter><k>.rs, notes.md),
#   confirm it in a scratch worktree (suite passes with it, demo fails with it, demo passes without it),
#   then run the quick tier of its own property's check (and C12 for edits of main.rs/args.rs) in isolation.
# Appends one JSON line per step to <results.jsonl>.  /repo is never touched.
set -u
L="$1"; export ISO_ROOT="$2"; RES="$3"; shift 3
for P in "$@"; do
  for d in /tmp/wt/$P/out/m*.diff; do
    [ -f "$d" ] || continue
    k=$(basename "$d" .diff); k=${k#m}
    NAME=$P-$L$k; S=/tmp/seeds/$NAME
    grep -q "\"name\":\"$NAME\",\"confirmed\":true,\"isolated\"" "$RES" 2>/dev/null && continue
    mkdir -p $S; cp "$d" $S/patch.diff; cp /tmp/wt/$P/out/m$k.md $S/notes.md 2>/dev/null || echo "(no notes)" > $S/notes.md
    DEMO=$S/demo_${P}_$L$k.rs; cp /tmp/wt/$P/out/demo_m$k.rs $DEMO || continue
    c=$(CONFIRM_ONLY=1 /verif/tools/eval_seeded.sh $NAME $S/patch.diff $DEMO $P 2>/dev/null | tail -1)
    echo "$c" >> "$RES"
    echo "$c" | grep -q '"confirmed":true' || continue
    EXTRA=""; grep -qE '^\+\+\+ b/src/(main|args)\.rs' $S/patch.diff && [ $P != C12 ] && EXTRA="C12"
    /verif/tools/eval_isolated.sh $NAME $S/patch.diff ${HARNESS:-/verif/harness} $P $EXTRA 2>/dev/null | tail -1 >> "$RES"
  done
done
