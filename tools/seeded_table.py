#!/usr/bin/env python3
"""print the markdown table of /verif/seeded/*/meta.json for DESIGN.md §10.6"""
import json, glob, os, re
rows = []
for f in sorted(glob.glob("/verif/seeded/*/meta.json")):
    m = json.load(open(f))
    notes = open(os.path.dirname(f) + "/notes.md").read().strip().splitlines()
    # first non-heading line as a one-line description
    desc = next((l for l in notes if l.strip() and not l.startswith("#")), "")
    desc = re.sub(r"\s+", " ", desc)[:150].replace("|", "/")
    checks = m["checks_run_with_patch_applied_to_/repo (quick tier)"]
    tgt = m["breaks_property"]
    t = checks.get(tgt, {})
    classes = ", ".join(t.get("violation_classes", [])[:2])
    others = ", ".join(c for c in m["detected_by"] if c != tgt)
    missed = ", ".join(c for c, v in checks.items() if v["exit"] == 0)
    rows.append(f"| {m['id']} | {', '.join(os.path.basename(x) for x in m['files_changed'])} | {desc} | {'yes: ' + classes if t.get('exit') == 1 else ('NO' if t else 'not run')} | {others or '-'} | {missed or '-'} |")
print("| seed | files | change (first line of its notes) | caught by its own property's check (classes) | also caught by | ran but silent |")
print("|---|---|---|---|---|---|")
print("\n".join(rows))
