#!/bin/bash
# usage: tools/eval_seeded.sh <name> <patch.diff> <demo.rs> <target-property> [more check ids...]
# 1. confirms the seeded change in a scratch worktree (suite passes with it, demo fails with it, demo passes without it)
# 2. applies it to /repo, runs the given checks (quick tier), restores /repo
# Prints a JSON summary on the last line.
set -u
NAME="$1"; PATCH="$(readlink -f "$2")"; DEMO="$(readlink -f "$3")"; shift 3
WT=/tmp/confirm-$NAME
if [ "${SKIP_CONFIRM:-0}" = 1 ]; then
  BASE=0; MUT=1; SUITE_OK=1; HOOKS_BUILD=0
else
rm -rf "$WT"; git -C /repo worktree prune
git -C /repo worktree add -q --detach "$WT" HEAD || exit 2
cleanup() { git -C /repo worktree remove --force "$WT" >/dev/null 2>&1; rm -rf "$WT"; }
trap cleanup EXIT
cd "$WT" || exit 2
export CARGO_TARGET_DIR="$WT/target" CARGO_NET_OFFLINE=true
mkdir -p tests; DEMONAME=$(basename "$DEMO" .rs); cp "$DEMO" tests/$DEMONAME.rs
cargo test --offline --test $DEMONAME >/tmp/confirm-$NAME.base.log 2>&1; BASE=$?
if ! git apply "$PATCH"; then echo "{\"name\":\"$NAME\",\"error\":\"patch does not apply\"}"; exit 2; fi
SUITE=$( (cargo test --workspace --no-fail-fast --offline --lib --bins 2>&1; cargo test --workspace --no-fail-fast --offline --doc 2>&1) | grep "test result" | tr '\n' ' ')
SUITE_OK=0; echo "$SUITE" | grep -q "102 passed; 0 failed" && echo "$SUITE" | grep -q "3 passed; 0 failed" && ! echo "$SUITE" | grep -q "FAILED" && SUITE_OK=1
cargo build --offline --features xsg_verif >/dev/null 2>&1; HOOKS_BUILD=$?
cargo test --offline --test $DEMONAME >/tmp/confirm-$NAME.mut.log 2>&1; MUT=$?
cleanup; trap - EXIT
fi
cd /verif
RESULTS=""
if [ $BASE -eq 0 ] && [ $MUT -ne 0 ] && [ $SUITE_OK -eq 1 ] && [ $HOOKS_BUILD -eq 0 ]; then
  CONFIRMED=true
  if [ "${CONFIRM_ONLY:-0}" = 1 ]; then echo "{\"name\":\"$NAME\",\"confirmed\":true}"; exit 0; fi
  if ! git -C /repo diff --quiet; then echo "/repo dirty" >&2; exit 2; fi
  git -C /repo apply "$PATCH" || exit 2
  mkdir -p /tmp/mutant-out
  for id in "$@"; do
    XSGV_OUT=/tmp/mutant-out timeout 900 ./check "$id" --tier ${TIER:-quick} > /tmp/seeded-$NAME-$id.log 2>&1; code=$?
    cls=$(grep -A1 -m3 '^VIOLATION' /tmp/seeded-$NAME-$id.log | grep 'class=' | sed 's/^ *class=\([^ ]*\).*/\1/' | tr '\n' ',' )
    RESULTS="$RESULTS\"$id\":{\"exit\":$code,\"classes\":\"$cls\"},"
  done
  git -C /repo checkout -- .
else
  CONFIRMED=false
fi
echo "{\"name\":\"$NAME\",\"confirmed\":$CONFIRMED,\"demo_passes_without\":$([ $BASE -eq 0 ] && echo true || echo false),\"demo_fails_with\":$([ $MUT -ne 0 ] && echo true || echo false),\"suite_ok_with\":$SUITE_OK,\"hooks_build_ok\":$([ $HOOKS_BUILD -eq 0 ] && echo true || echo false),\"checks\":{${RESULTS%,}}}"
