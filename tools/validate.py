#!/usr/bin/env python3
"""validate MANIFEST.json and evidence/*.json against the schemas in /root/.vp (needs jsonschema: python3-vt)"""
import json, sys, glob, os
import jsonschema
base = os.path.dirname(os.path.dirname(os.path.abspath(__file__)))
ok = True
man = json.load(open(f"{base}/MANIFEST.json"))
jsonschema.validate(man, json.load(open("/root/.vp/MANIFEST.schema.json")))
props = [json.loads(l)["id"] for l in open(f"{base}/properties.jsonl")]
claimed = [c["property_id"] for c in man["checks"]]
na = [c["property_id"] for c in man.get("not_applicable", [])]
for p in props:
    if (p in claimed) == (p in na):
        print("property", p, "must be either claimed or not_applicable"); ok = False
es = json.load(open("/root/.vp/EVIDENCE.schema.json"))
for c in man["checks"]:
    f = c["evidence_file"]
    if not os.path.exists(f):
        print("missing evidence", f); ok = False; continue
    ev = json.load(open(f))
    try:
        jsonschema.validate(ev, es)
    except jsonschema.ValidationError as e:
        print("invalid evidence", f, e.message); ok = False
    if ev["level"] != c["level_claimed"]["category"]:
        print("level mismatch", f); ok = False
print("OK" if ok else "FAILED")
sys.exit(0 if ok else 1)
