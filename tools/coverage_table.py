#!/usr/bin/env python3
"""print a markdown table of what the committed evidence files report (quick tier)"""
import json, glob
print("| id | level | wall s | evaluations | distinct non-trivial | states | transitions | exhaustive | violations |")
print("|---|---|---|---|---|---|---|---|---|")
for f in sorted(glob.glob("/verif/evidence/C*.json")):
    e = json.load(open(f)); c = e["coverage"]
    g = lambda k: f"{c[k]:,}" if isinstance(c.get(k), int) else "–"
    print(f"| {e['property_id']} | {e['level']} | {e['wall_s']:.1f} | {g('evaluations')} | {g('distinct_nontrivial')} | {g('states')} | {g('transitions')} | {c.get('exhaustive', '–')} | {e.get('violations', 0)} |")
