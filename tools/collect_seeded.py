#!/usr/bin/env python3
"""collect confirmed seeded changes from /tmp/seeds into /verif/seeded/<id>/ (patch.diff, demo, notes.md, meta.json)
usage: collect_seeded.py <results.jsonl> [<results.jsonl> ...]   (later files override earlier ones per (seed, check))"""
import json, os, re, shutil, sys
TITLES = {json.loads(l)["id"]: json.loads(l)["title"] for l in open("/verif/properties.jsonl")}
results = {}
for f in sys.argv[1:]:
    for l in open(f):
        if not l.startswith("{"):
            continue
        d = json.loads(l)
        r = results.setdefault(d["name"], {"confirmed": d.get("confirmed", False), "checks": {}})
        r["confirmed"] = r["confirmed"] or d.get("confirmed", False)
        r["checks"].update(d.get("checks", {}))
for name, r in sorted(results.items()):
    src = f"/tmp/seeds/{name}"
    if not r["confirmed"] or not os.path.isdir(src):
        continue
    m = re.match(r"(C\d\d)-([mnqstuv])(\d+)$", name)
    prop, rnd, k = m.group(1), m.group(2), m.group(3)
    dst = f"/verif/seeded/{name}"
    os.makedirs(dst, exist_ok=True)
    shutil.copy(f"{src}/patch.diff", f"{dst}/patch.diff")
    if os.path.exists(f"{src}/patch.original.diff"):
        shutil.copy(f"{src}/patch.original.diff", f"{dst}/patch.original.diff")
    demo = f"demo_{prop}_{rnd}{k}.rs"
    shutil.copy(f"{src}/{demo}", f"{dst}/{demo}")
    shutil.copy(f"{src}/notes.md", f"{dst}/notes.md")
    notes = open(f"{src}/notes.md").read()
    files = sorted(set(re.findall(r"^\+\+\+ b/(\S+)", open(f"{src}/patch.diff").read(), re.M)))
    detected = {c: {"exit": v["exit"], "violation_classes": [x for x in v["classes"].split(",") if x]} for c, v in r["checks"].items()}
    meta = {
        "id": name,
        "breaks_property": prop,
        "property_title": TITLES.get(prop, ""),
        "origin": "written by an independent sub-agent that saw only the property text and a scratch worktree of /repo (nothing from /verif); round " + {"m": "1", "n": "2 (asked to avoid the ideas of round 1)", "q": "3 (asked to avoid the ideas of rounds 1 and 2)", "s": "4 (asked to avoid the ideas of rounds 1 to 3)", "t": "5 (asked to avoid the ideas of rounds 1 to 4)", "u": "6 (asked to avoid the ideas of rounds 1 to 5)", "v": "7 (asked to avoid the ideas of rounds 1 to 6)"}[rnd] + (". patch.diff was re-based by hand onto /repo 328e961 after the struct-name pre-pass fix; patch.original.diff is the sub-agent's diff against f68d4cd" if os.path.exists(f"{src}/patch.original.diff") else ""),
        "files_changed": files,
        "needs_to_manifest": notes.strip().split("\n\n")[0][:1200],
        "confirmed_by": [
            "scratch worktree of /repo HEAD: patch applies with `git apply`",
            "with the patch: `cargo test --workspace --no-fail-fast --offline --lib --bins` and `--doc` -> 102 + 3 tests pass; `cargo build --offline --features xsg_verif` succeeds",
            f"with the patch: `cargo test --offline --test {demo[:-3]}` fails; without it the same test passes",
        ],
        "checks_run_with_patch_applied_to_/repo (quick tier)": detected,
        "detected_by": sorted(c for c, v in detected.items() if v["exit"] == 1),
    }
    json.dump(meta, open(f"{dst}/meta.json", "w"), indent=1, ensure_ascii=False)
    print(name, meta["detected_by"])
