#!/bin/bash
# usage: tools/try_mutant.sh <patch.diff> <check ids...>   (applies the patch to /repo, runs the repo's tests and the
# given checks at quick tier, then restores /repo; prints one line per check)
set -u
PATCH="$1"; shift
cd /repo || exit 2
if ! git diff --quiet; then echo "/repo has uncommitted changes" >&2; exit 2; fi
if ! git apply "$PATCH"; then echo "patch does not apply" >&2; exit 2; fi
trap 'git -C /repo checkout -- . >/dev/null 2>&1' EXIT
T=$(cargo test --workspace --no-fail-fast --offline 2>&1 | grep "test result" | tr '\n' ' ')
echo "repo tests: $T"
cd /verif
for id in "$@"; do
  XSGV_OUT=/tmp/mutant-out ./check "$id" --tier ${TIER:-quick} > /tmp/mutant-$id.log 2>&1
  code=$?
  echo "$id exit=$code $(grep -m2 -A1 VIOLATION /tmp/mutant-$id.log | tr '\n' ' ' | cut -c1-400)"
done
