#!/bin/bash
# usage: tools/eval_isolated.sh <name> <patch.diff> <harness-dir> <check ids...>
# Runs checks against a seeded change WITHOUT touching /repo: a scratch worktree of /repo HEAD with the
# patch applied, a copy of the harness (and depth probe) whose path dependency points at that worktree,
# own target directories under <root>-target.  Prints one JSON line.  One instance per ISO_ROOT (default /tmp/iso).
set -u
NAME="$1"; PATCH="$(readlink -f "$2")"; HARNESS="$(readlink -f "$3")"; shift 3
ROOT=${ISO_ROOT:-/tmp/iso}; TGT=${ROOT}-target
rm -rf $ROOT/repo $ROOT/harness $ROOT/depthprobe $ROOT/out $ROOT/work; git -C /repo worktree prune
mkdir -p $ROOT $TGT
git -C /repo worktree add -q --detach $ROOT/repo HEAD || exit 2
trap 'git -C /repo worktree remove --force $ROOT/repo >/dev/null 2>&1' EXIT
(cd $ROOT/repo && git apply "$PATCH") || { echo "{\"name\":\"$NAME\",\"error\":\"patch does not apply\"}"; exit 2; }
cp /repo/Cargo.lock $ROOT/repo/Cargo.lock 2>/dev/null
cp -r "$HARNESS" $ROOT/harness; rm -rf $ROOT/harness/target
sed -i "s#path = \"/repo\"#path = \"$ROOT/repo\"#" $ROOT/harness/Cargo.toml
cp -r /verif/depthprobe $ROOT/depthprobe; sed -i "s#path = \"/repo\"#path = \"$ROOT/repo\"#" $ROOT/depthprobe/Cargo.toml; cp /repo/Cargo.lock $ROOT/depthprobe/Cargo.lock
ln -sfn /verif/known_findings.json $ROOT/known_findings.json; ln -sfn /verif/farm-template $ROOT/farm-template
mkdir -p $ROOT/target; for t in hooks plain repo-bin depthprobe farm; do mkdir -p $TGT/$t; ln -sfn $TGT/$t $ROOT/target/$t; done
export CARGO_NET_OFFLINE=true
if ! (cd $ROOT/harness && cargo build --release --offline --features hooks --target-dir $TGT/hooks >$ROOT-build.log 2>&1); then
  echo "{\"name\":\"$NAME\",\"error\":\"hooks build failed\"}"; tail -5 $ROOT-build.log >&2; exit 2; fi
RESULTS=""
for id in "$@"; do
  case $id in
    C05) (cd $ROOT/harness && cargo build --release --offline --target-dir $TGT/plain >/dev/null 2>&1);;
    C07) (cd $ROOT/depthprobe && cargo build --offline --target-dir $TGT/depthprobe >/dev/null 2>&1);;
    C12) (cd $ROOT/repo && cargo build --offline --bin xml_schema_generator --target-dir $TGT/repo-bin >/dev/null 2>&1);;
  esac
  XSGV_DIR=$ROOT XSGV_OUT=$ROOT/out timeout 1200 $TGT/hooks/release/xsgv "$id" --tier ${TIER:-quick} > $ROOT-$NAME-$id.log 2>&1; code=$?
  cls=$(grep -A1 -m3 '^VIOLATION' $ROOT-$NAME-$id.log | grep 'class=' | sed 's/^ *class=\([^ ]*\).*/\1/' | tr '\n' ',' )
  RESULTS="$RESULTS\"$id\":{\"exit\":$code,\"classes\":\"$cls\"},"
done
echo "{\"name\":\"$NAME\",\"confirmed\":true,\"isolated\":true,\"checks\":{${RESULTS%,}}}"
